"""C15 implementation driver: runs formulas through the REAL boolean machinery of both query systems and
records observations (no Butler repository involved; run in worker subprocesses only for the watchdog).

Formula JSON:   ["a", k, kind] | ["c", bool] | ["n", f] | ["&", f, g, ...] | ["|", f, g, ...] | ["p", f]
Kleene values:  'T' | 'F' | 'U';  a truth table is a string over the 3^n assignments in the order of
                harness.props.c15.assignments(n)  (= Model/Pred.v `assignments`).

Observed structures are returned as JSON:
  cnf    [[ [atom, positive], ...], ...]                    (Predicate.operands)
  ltree  ["a", k] | ["n", t] | ["b", l, is_and, r] | ["p", t]  (legacy Node tree restricted to the boolean skeleton)
"""
from __future__ import annotations

import resource
import signal
import sys

sys.setrecursionlimit(20000)

CASE_SECONDS = 20
MEM_BYTES = 4 * 1024**3


class CaseTimeout(Exception):
    pass


def _limits():
    """bound the worker: 4 GB address space, and a per-case alarm (a case normally takes milliseconds)"""
    try:
        resource.setrlimit(resource.RLIMIT_AS, (MEM_BYTES, MEM_BYTES))
    except (ValueError, OSError):
        pass

    def _alarm(signum, frame):
        raise CaseTimeout()
    signal.signal(signal.SIGALRM, _alarm)


def _arm():
    signal.setitimer(signal.ITIMER_REAL, CASE_SECONDS)


def _disarm():
    signal.setitimer(signal.ITIMER_REAL, 0)


def assignments(n):
    out = [[]]
    for _ in range(n):
        out = [[x] + t for t in out for x in "TFU"]
    return out


def k_not(a):
    return {"T": "F", "F": "T", "U": "U"}[a]


def k_and(xs):
    xs = list(xs)
    return "F" if "F" in xs else ("U" if "U" in xs else "T")


def k_or(xs):
    xs = list(xs)
    return "T" if "T" in xs else ("U" if "U" in xs else "F")


def err_class(e: BaseException) -> str:
    return type(e).__name__


# =================================================================================================
# new query system
# =================================================================================================

def _pred_env():
    from lsst.daf.butler.queries import tree as qt
    from lsst.daf.butler.queries.tree import Predicate, make_column_literal
    from lsst.daf.butler.queries.visitors import PredicateVisitor

    def mk_atom(k, kind):
        lit = make_column_literal(int(k))
        if kind == 1:
            return Predicate.is_null(lit)
        if kind == 2:
            return Predicate.in_range(lit, 0, 10, 1)
        if kind == 3:
            return Predicate.in_container(lit, [make_column_literal(0)])
        return Predicate.compare(lit, "==", make_column_literal(int(k)))

    class Eval(PredicateVisitor):
        """Kleene evaluation through the real visitor dispatch (queries/visitors.py)."""

        def __init__(self, v):
            self.v = v

        def visit_boolean_wrapper(self, value, flags):
            raise NotImplementedError

        def visit_comparison(self, a, operator, b, flags):
            return self.v[a.value]

        def visit_is_null(self, operand, flags):
            return self.v[operand.value]

        def visit_in_container(self, member, container, flags):
            return self.v[member.value]

        def visit_in_range(self, member, start, stop, step, flags):
            return self.v[member.value]

        def visit_in_query_tree(self, member, column, query_tree, flags):
            raise NotImplementedError

        def apply_logical_not(self, original, result, flags):
            return k_not(result)

        def apply_logical_or(self, originals, results, flags):
            return k_or(results)

        def apply_logical_and(self, originals, results):
            return k_and(results)

    def leaf_json(leaf):
        pos = True
        if leaf.predicate_type == "not":
            pos = False
            leaf = leaf.operand
            if leaf.predicate_type == "not":
                raise TypeError("LogicalNot nested in LogicalNot")
        for attr in ("a", "operand", "member"):
            x = getattr(leaf, attr, None)
            if x is not None:
                return [int(x.value), pos]
        raise TypeError(f"unexpected leaf {leaf!r}")

    def cnf_json(operands):
        return [[leaf_json(l) for l in g] for g in operands]

    def direct_value(operands, v):
        """value = all(any(or_group) for or_group in operands), in Kleene logic, read off the structure"""
        def lv(l):
            a, pos = leaf_json(l)
            return v[a] if pos else k_not(v[a])
        return k_and(k_or(lv(l) for l in g) for g in operands)

    return Predicate, mk_atom, Eval, cnf_json, direct_value


def run_pred(payload):
    """payload: {"n": natoms, "formulas": [...], "max_literals": int, "steps": bool}
    -> list of {"ops", "size", "tv", "td", "flags", "steps"} | {"error": cls}"""
    Predicate, mk_atom, Eval, cnf_json, direct_value = _pred_env()
    n = payload["n"]
    asg = assignments(n)
    maxlit = payload.get("max_literals", 4000)
    want_steps = payload.get("steps", False)

    # recorder for the object-identity test inside _impl_and (observation only: calls the original)
    orig = Predicate.__dict__["_impl_and"].__func__
    rec: list[bool] = []

    def _rec(cls, a, b):
        rec.append(a is b)
        return orig(cls, a, b)

    Predicate._impl_and = classmethod(_rec)

    class TooBig(Exception):
        pass

    def size(p):
        return sum(len(g) for g in p.operands)

    def build(f, flags, steps):
        t = f[0]
        if t == "a":
            return mk_atom(f[1], f[2] if len(f) > 2 else 0)
        if t == "c":
            return Predicate.from_bool(bool(f[1]))
        if t == "n":
            p = build(f[1], flags, steps)
            del rec[:]
            # NOT of k groups of sizes s_i yields prod(s_i) groups of k literals: refuse before computing
            pred_groups = 1
            for g in p.operands:
                pred_groups *= max(len(g), 1)
                if pred_groups * max(len(p.operands), 1) > maxlit:
                    raise TooBig()
            r = p.logical_not()
            if steps is not None:
                steps.append({"op": "not", "self": cnf_json(p.operands), "args": [], "flags": [], "res": cnf_json(r.operands),
                              "tv": table(r)})
            return r
        if t in "&|":
            # structurally equal operands of one call are the SAME Predicate object (p.logical_and(q, p)):
            # this is what reaches the `a is b` branch of _impl_and
            ps = []
            for j, g in enumerate(f[1:]):
                k = next((i for i in range(j) if f[1 + i] == g), None)
                ps.append(ps[k] if k is not None else build(g, flags, steps))
            del rec[:]
            if t == "|":
                # OR is the product of the group lists
                ngroups, width = 1, 0
                for q in ps:
                    ngroups *= len(q.operands)
                    width += max((len(g) for g in q.operands), default=0)
                if ngroups * max(width, 1) > maxlit:
                    raise TooBig()
            if t == "&":
                r = ps[0].logical_and(*ps[1:])
                fl = list(rec) if len(rec) == len(ps) - 1 else None
                flags.append(fl)
            else:
                r = ps[0].logical_or(*ps[1:])
                fl = []
            if size(r) > maxlit:
                raise TooBig()
            if steps is not None:
                steps.append({"op": "and" if t == "&" else "or", "self": cnf_json(ps[0].operands),
                              "args": [cnf_json(p.operands) for p in ps[1:]], "flags": fl,
                              "res": cnf_json(r.operands), "tv": table(r)})
            return r
        raise ValueError(f"bad formula node {t}")

    def table(p):
        return "".join(p.visit(Eval(v)) for v in asg)

    out = []
    _limits()
    for f in payload["formulas"]:
        try:
            _arm()
            flags: list = []
            steps = [] if want_steps else None
            p = build(f, flags, steps)
            o = {"ops": cnf_json(p.operands), "size": size(p), "tv": table(p),
                 "td": "".join(direct_value(p.operands, v) for v in asg), "flags": flags, "str": str(p)[:300]}
            if steps is not None:
                o["steps"] = steps
            out.append(o)
        except TooBig:
            out.append({"skip": "too big"})
        except MemoryError:
            out.append({"skip": "memory"})
        except CaseTimeout:
            out.append({"error": "Timeout", "msg": f"more than {CASE_SECONDS} s for a result bounded by {maxlit} literals"})
        except RecursionError:
            out.append({"error": "RecursionError"})
        except Exception as e:  # noqa: BLE001
            out.append({"error": err_class(e), "msg": str(e)[:200]})
        finally:
            _disarm()
    return out


# =================================================================================================
# new query system: SimplePredicateVisitor.apply_logical_* (rebuild a predicate from per-leaf replacements)
# =================================================================================================

def run_visit(payload):
    """payload: {"n": natoms, "cases": [{"f": formula, "sub": {"<atom>": formula}}], "max_literals": int}
    A SimplePredicateVisitor subclass returns, for every leaf on atom k, the Predicate built from sub[k] (None when
    k is not substituted); the predicate built from f is visited with it.
    -> list of {"ops" (operands of the predicate built from f), "sub_ops" {atom: operands}, "res" (operands of the
       visited result; the original when the visitor returned None), "none": bool, "tv", "td"} | {"error"} | {"skip"}"""
    Predicate, mk_atom, Eval, cnf_json, direct_value = _pred_env()
    from lsst.daf.butler.queries.visitors import SimplePredicateVisitor
    n = payload["n"]
    asg = assignments(n)
    maxlit = payload.get("max_literals", 120)

    def size(p):
        return sum(len(g) for g in p.operands)

    class TooBig(Exception):
        pass

    def build(f):
        t = f[0]
        if t == "a":
            return mk_atom(f[1], f[2] if len(f) > 2 else 0)
        if t == "c":
            return Predicate.from_bool(bool(f[1]))
        if t == "n":
            p = build(f[1])
            groups = 1
            for g in p.operands:
                groups *= max(len(g), 1)
                if groups * max(len(p.operands), 1) > maxlit:
                    raise TooBig()
            return p.logical_not()
        if t in "&|":
            ps = [build(g) for g in f[1:]]
            if t == "|":
                groups = 1
                for q in ps:
                    groups *= max(len(q.operands), 1)
                if groups * sum(max((len(g) for g in q.operands), default=0) for q in ps) > maxlit:
                    raise TooBig()
            r = ps[0].logical_and(*ps[1:]) if t == "&" else ps[0].logical_or(*ps[1:])
            if size(r) > maxlit:
                raise TooBig()
            return r
        raise ValueError(f"bad formula node {t}")

    class Sub(SimplePredicateVisitor):
        def __init__(self, repl):
            self.repl = repl

        def visit_comparison(self, a, operator, b, flags):
            return self.repl.get(int(a.value))

        def visit_is_null(self, operand, flags):
            return self.repl.get(int(operand.value))

        def visit_in_container(self, member, container, flags):
            return self.repl.get(int(member.value))

        def visit_in_range(self, member, start, stop, step, flags):
            return self.repl.get(int(member.value))

    def table(p):
        return "".join(p.visit(Eval(v)) for v in asg)

    out = []
    _limits()
    for c in payload["cases"]:
        try:
            _arm()
            p = build(c["f"])
            repl = {int(k): build(g) for k, g in c["sub"].items()}
            if size(p) * max([1] + [size(q) + len(q.operands) for q in repl.values()]) > 4 * maxlit:
                raise TooBig()
            # predicted size of the rebuilt predicate: a replaced leaf contributes its groups (under NOT: one group per
            # way of picking a literal out of every group -- the exponential cost of NOT, refused before computing),
            # an OR-group is the product of its leaves' groups
            total = 0
            for g in p.operands:
                ngroups, width = 1, 0
                for a, pos in cnf_json((g,))[0]:
                    q = repl.get(a)
                    if q is None:
                        lg, lw = 1, 1
                    elif pos:
                        lg, lw = len(q.operands), max((len(x) for x in q.operands), default=0)
                    else:
                        lg, lw = 1, len(q.operands)
                        for x in q.operands:
                            lg *= len(x)
                            if lg * max(lw, 1) > 4 * maxlit:
                                raise TooBig()
                    ngroups *= max(lg, 1) if lg else 0
                    width += lw
                    if ngroups * max(width, 1) > 4 * maxlit:
                        raise TooBig()
                total += ngroups * max(width, 1)
                if total > 4 * maxlit:
                    raise TooBig()
            r = p.visit(Sub(repl))
            none = r is None
            if none:
                r = p
            if size(r) > 4 * maxlit:
                raise TooBig()
            out.append({"ops": cnf_json(p.operands), "sub_ops": {str(k): cnf_json(q.operands) for k, q in repl.items()},
                        "res": cnf_json(r.operands), "none": none, "tv": table(r),
                        "td": "".join(direct_value(r.operands, v) for v in asg), "str": str(r)[:300]})
        except TooBig:
            out.append({"skip": "too big"})
        except MemoryError:
            out.append({"skip": "memory"})
        except CaseTimeout:
            out.append({"error": "Timeout", "msg": f"more than {CASE_SECONDS} s"})
        except RecursionError:
            out.append({"error": "RecursionError"})
        except Exception as e:  # noqa: BLE001
            out.append({"error": err_class(e), "msg": str(e)[:200]})
        finally:
            _disarm()
    return out


# =================================================================================================
# legacy query system
# =================================================================================================

def _nf_env():
    from lsst.daf.butler.registry.queries.expressions.normalForm import NormalForm, NormalFormExpression, NormalFormVisitor
    from lsst.daf.butler.registry.queries.expressions.parser import ParserYacc, exprTree as et

    def mk_atom(k, kind):
        name = f"x{k}"
        if kind == 1:
            return et.BinaryOp(et.Identifier(name), "=", et.NumericLiteral("1"))
        if kind == 2:
            return et.IsIn(et.Identifier(name), [et.NumericLiteral("1"), et.NumericLiteral("2")], False)
        if kind == 3:
            return et.BinaryOp(et.Identifier(name), "<", et.BinaryOp(et.Identifier(name), "+", et.NumericLiteral("1")))
        return et.Identifier(name)

    def atom_id(node):
        """index of the atom a non-boolean-skeleton node stands for, or None"""
        if isinstance(node, et.Identifier):
            return int(node.name[1:])
        if isinstance(node, et.BinaryOp) and node.op not in ("AND", "OR"):
            return atom_id(node.lhs)
        if isinstance(node, et.IsIn):
            return atom_id(node.lhs)
        return None

    def to_node(f):
        t = f[0]
        if t == "a":
            return mk_atom(f[1], f[2] if len(f) > 2 else 0)
        if t == "n":
            return et.UnaryOp("NOT", to_node(f[1]))
        if t == "p":
            return et.Parens(to_node(f[1]))
        if t in "&|":
            if len(f) != 3:
                raise ValueError("legacy trees are binary")
            return et.BinaryOp(to_node(f[1]), "AND" if t == "&" else "OR", to_node(f[2]))
        raise ValueError(f"bad formula node {t}")

    def to_text(f):
        """fully parenthesised where-string (no reliance on operator precedence)"""
        t = f[0]
        if t == "a":
            return str(mk_atom(f[1], f[2] if len(f) > 2 else 0))
        if t == "n":
            return f"NOT ({to_text(f[1])})"
        if t == "p":
            return f"({to_text(f[1])})"
        return f"(({to_text(f[1])}) {'AND' if t == '&' else 'OR'} ({to_text(f[2])}))"

    def ltree(node):
        a = atom_id(node)
        if a is not None:
            return ["a", a]
        if isinstance(node, et.Parens):
            inner = ltree(node.expr)
            return inner if inner[0] == "a" else ["p", inner]     # parentheses around an atom are print-only
        if isinstance(node, et.UnaryOp) and node.op == "NOT":
            return ["n", ltree(node.operand)]
        if isinstance(node, et.BinaryOp) and node.op in ("AND", "OR"):
            return ["b", ltree(node.lhs), node.op == "AND", ltree(node.rhs)]
        raise TypeError(f"unexpected node {node!r} in a boolean skeleton")

    def value(node, v):
        a = atom_id(node)
        if a is not None:
            return v[a]
        if isinstance(node, et.Parens):
            return value(node.expr, v)
        if isinstance(node, et.UnaryOp) and node.op == "NOT":
            return k_not(value(node.operand, v))
        if isinstance(node, et.BinaryOp) and node.op == "AND":
            return k_and([value(node.lhs, v), value(node.rhs, v)])
        if isinstance(node, et.BinaryOp) and node.op == "OR":
            return k_or([value(node.lhs, v), value(node.rhs, v)])
        raise TypeError(f"unexpected node {node!r}")

    class NFEval(NormalFormVisitor):
        def __init__(self, v):
            self.v = v

        def visitBranch(self, node):
            return value(node, self.v)

        def visitInner(self, branches, form):
            return k_and(branches) if form.inner.name == "AND" else k_or(branches)

        def visitOuter(self, branches, form):
            return k_and(branches) if form.outer.name == "AND" else k_or(branches)

    return NormalForm, NormalFormExpression, ParserYacc, to_node, to_text, ltree, value, NFEval


def run_nf(payload):
    """payload: {"n": natoms, "cases": [{"f": formula, "cnf": bool, "parse": bool}], "max_leaves": int}
    -> list of {"input", "nodes", "tree", "tt" (table of toTree()), "tn" (table through NormalFormVisitor), "leaves"}"""
    NormalForm, NFE, ParserYacc, to_node, to_text, ltree, value, NFEval = _nf_env()
    asg = assignments(payload["n"])
    parser = None
    out = []
    _limits()
    for c in payload["cases"]:
        try:
            _arm()
            if c.get("parse"):
                parser = parser or ParserYacc()
                root = parser.parse(to_text(c["f"]))
            else:
                root = to_node(c["f"])
            form = NormalForm.CONJUNCTIVE if c["cnf"] else NormalForm.DISJUNCTIVE
            e = NFE.fromTree(root, form)
            nodes = [[ltree(x) for x in g] for g in e._nodes]
            tree = e.toTree()
            o = {
                "input": ltree(root),
                "ti": "".join(value(root, v) for v in asg),
                "nodes": nodes,
                "tree": ltree(tree),
                "tt": "".join(value(tree, v) for v in asg),
                "tn": "".join(e.visit(NFEval(v)) for v in asg),
                "leaves": sum(len(g) for g in nodes),
                "str": str(tree)[:300],
            }
            out.append(o)
        except MemoryError:
            out.append({"skip": "memory"})
        except CaseTimeout:
            out.append({"error": "Timeout", "msg": f"more than {CASE_SECONDS} s to normalise a tree of at most a dozen leaves"})
        except RecursionError:
            out.append({"error": "RecursionError"})
        except Exception as e2:  # noqa: BLE001
            out.append({"error": err_class(e2), "msg": str(e2)[:200]})
        finally:
            _disarm()
    return out
