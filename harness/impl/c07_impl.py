"""C07 implementation driver: run transaction programs on a REAL Butler (SQLite registry + POSIX file datastore) with a
fault injected at the k-th instrumented SQL / file / formatter boundary, and record what the client sees afterwards.

World (numeric ids <-> real names, never sent to the model):
  slot d (0..NSLOT-1)   -> dataset of type "dt" (instrument, detector; isCalibration) with data ID {I0, detector d} in RUN "run"
  content v             -> the stored dict {"slot": d, "v": v}; put writes the v it is given, the staged file of slot d holds 100+d
  TAGGED "tag", CALIBRATION "calib" (validity range of slot d = [2020-01-(d+1), 2020-01-(d+2)) )
  governor g (0..NGOV-1)-> instrument record "G<g>"
  staging area <top>/ext/s<d>.yaml (source files of ingest)

Programs (JSON):  ["op", name, args...] | ["block", [prog...]] | ["try", prog] | ["fail"]
  ops: put d v | ingest mode d | assoc d | untag d | cert d | insdim g | expand g | purge d | unstore d | emptytrash
       | import d     (Butler.import_(directory=<top>/src, filename=<top>/export<d>.yaml, transfer="copy"): the export file holds
                       the source repository's dataset of slot d with its dimension records, run and dataset type)
       | transfer d   (Butler.transfer_from(source, [ref of slot d], transfer="copy"); the SOURCE repository <top>/src holds
                       a dataset {"slot": d, "v": 200+d} for every slot, is shared read-only by all runs of a case, and
                       its own SQL traffic is not instrumented)
  block = `with butler.transaction():`;  try = `try: ... except Exception: pass`;  fail = `raise UserFail`

Instrumentation is applied from outside the package (no source hooks): SQLAlchemy engine events `before_cursor_execute`
and `commit`; wrappers around lsst.resources FileResourcePath.write / transfer_from / remove, os.rename / os.remove /
os.replace / shutil.copy, and the formatter's serialisation.  Events are counted in a fault-free run; a fault run raises
the error natural for the event's kind instead of performing the k-th event.  Undo replay (DatastoreTransaction.rollback)
and SQL ROLLBACK statements are neither counted nor faulted (one fault per run).
"""
from __future__ import annotations

import os
import shutil
import sqlite3
import time

from harness.impl import fixture

NSLOT, NGOV = 4, 3


class UserFail(Exception):
    pass


class InjectedInterrupt(BaseException):
    """Not an `Exception`: a `try/except Exception` in the program does not catch it (KeyboardInterrupt-like)."""


class Injector:
    def __init__(self):
        self.n = 0
        self.at = None
        self.flavour = "natural"
        self.fired = None
        self.trace = []
        self.suspend = 0
        self.active = False

    def event(self, kind, label):
        if not self.active or self.suspend:
            return
        i = self.n
        self.n += 1
        self.trace.append(f"{kind}:{label}")
        if self.at == i and self.fired is None:
            self.fired = f"{kind}:{label}"
            if self.flavour == "interrupt":
                raise InjectedInterrupt(f"injected at event {i} {kind}:{label}")
            if kind == "sql":
                import sqlalchemy.exc
                raise sqlalchemy.exc.OperationalError(f"injected at event {i}", {}, Exception("disk I/O error (injected)"))
            if kind == "fmt":
                raise ValueError(f"injected serialisation failure at event {i}")
            raise OSError(5, f"injected I/O error at event {i} {label}")


INJ = Injector()
_patched = False


def _sql_label(stmt: str) -> str:
    w = stmt.split()
    if not w:
        return "?"
    head = w[0].upper()
    if head in ("INSERT", "DELETE"):
        return f"{head} {w[2] if len(w) > 2 else ''}".strip().strip('"')
    if head == "UPDATE":
        return f"UPDATE {w[1]}".strip('"')
    if head in ("SAVEPOINT", "RELEASE", "BEGIN"):
        return head
    return head


def patch_process():
    """Process-wide wrappers (file system + formatter + datastore rollback marker); idempotent."""
    global _patched
    if _patched:
        return
    _patched = True
    import shutil as _sh

    import lsst.resources.file as rf
    from lsst.daf.butler.datastore._datastore import DatastoreTransaction

    def wrap_method(cls, name, label):
        orig = getattr(cls, name)

        def w(self, *a, **k):
            INJ.event("fs", label)
            INJ.suspend += 1          # one boundary per call: what it does inside is not a second position
            try:
                return orig(self, *a, **k)
            finally:
                INJ.suspend -= 1
        w.__name__ = name
        setattr(cls, name, w)

    wrap_method(rf.FileResourcePath, "write", "write")
    wrap_method(rf.FileResourcePath, "remove", "remove")

    # transfer_from: the boundary is the os-level call that puts the file in place (so that the undo registration of
    # lsst.resources around it is exercised as written)
    def wrap_os(mod, name, label):
        orig = getattr(mod, name)

        def w(*a, **k):
            INJ.event("fs", label)
            return orig(*a, **k)
        w.__name__ = name
        setattr(mod, name, w)

    wrap_os(os, "rename", "os.rename")
    wrap_os(os, "replace", "os.replace")
    wrap_os(os, "remove", "os.remove")
    wrap_os(_sh, "copy", "shutil.copy")

    orig_rb = DatastoreTransaction.rollback

    def rb(self):
        INJ.suspend += 1
        try:
            return orig_rb(self)
        finally:
            INJ.suspend -= 1
    DatastoreTransaction.rollback = rb

    from lsst.daf.butler.formatters.yaml import YamlFormatter
    orig_tb = YamlFormatter.to_bytes

    def tb(self, in_memory_dataset):
        INJ.event("fmt", "to_bytes")
        return orig_tb(self, in_memory_dataset)
    YamlFormatter.to_bytes = tb


def patch_engine(butler):
    import sqlalchemy

    eng = butler._registry._db._engine

    def before(conn, cursor, statement, parameters, context, executemany):
        s = statement.lstrip()
        up = s[:9].upper()
        if up.startswith("ROLLBACK") or up.startswith("PRAGMA"):
            return
        INJ.event("sql", _sql_label(s))

    def on_commit(conn):
        INJ.event("sql", "COMMIT")

    sqlalchemy.event.listen(eng, "before_cursor_execute", before)
    sqlalchemy.event.listen(eng, "commit", on_commit)


_CFG = {}


def _open(root):
    """Butler.from_config with the parsed ButlerConfig of this path cached per worker process: every fault position reopens
    a fresh copy of the same repository at the same path, and parsing the configuration is half the cost of opening."""
    import copy

    from lsst.daf.butler import Butler, ButlerConfig
    cfg = _CFG.get(root)
    if cfg is None:
        cfg = _CFG[root] = ButlerConfig(root)
    return Butler.from_config(copy.deepcopy(cfg), writeable=True)


def _additive(p):
    if p[0] == "op":
        return p[1] not in ("purge", "unstore", "emptytrash")
    if p[0] == "block":
        return all(_additive(q) for q in p[1])
    if p[0] == "try":
        return _additive(p[1])
    return True


# ------------------------------------------------------------------------------------------------------------
class World:
    def __init__(self, top):
        self.top = top
        self.root = os.path.join(top, "repo")
        self.ext = os.path.join(top, "ext")
        self.butler = _open(self.root)
        patch_engine(self.butler)
        self.dt = self.butler.get_dataset_type("dt")
        self.escapes = []
        self._tables = None
        self._src = None

    def close(self):
        try:
            self.butler._registry._db._engine.dispose()
        except Exception:  # noqa: BLE001
            pass
        if self._src is not None:
            try:
                self._src._registry._db._engine.dispose()
            except Exception:  # noqa: BLE001
                pass

    def src_butler(self):
        """The source repository of transfer_from (created by run_cases next to the template; read-only).  Opening it and
        resolving the ref is preparation, not part of the operation: not a boundary."""
        if self._src is None:
            from lsst.daf.butler import Butler
            INJ.suspend += 1
            try:
                self._src = Butler.from_config(os.path.join(os.path.dirname(self.top), "src"), writeable=False)
            finally:
                INJ.suspend -= 1
        return self._src

    # -- helpers ---------------------------------------------------------------------------
    def did(self, d):
        return {"instrument": "I0", "detector": d}

    def ref_of(self, d):
        r = self.butler.find_dataset("dt", self.did(d), collections="run")
        if r is None:
            raise LookupError(f"no dataset in slot {d}")
        return r

    def ts(self, d):
        import astropy.time
        from lsst.daf.butler import Timespan
        return Timespan(astropy.time.Time(f"2020-01-{d + 1:02d}T00:00:00", scale="tai"),
                        astropy.time.Time(f"2020-01-{d + 2:02d}T00:00:00", scale="tai"))

    # -- ops -------------------------------------------------------------------------------
    def op(self, name, *a):
        b = self.butler
        if name == "put":
            d, v = a
            b.put({"slot": d, "v": v}, "dt", self.did(d), run="run")
        elif name == "ingest":
            mode, d = a
            from lsst.daf.butler import DataCoordinate, DatasetRef, FileDataset
            dc = DataCoordinate.standardize(self.did(d), universe=b.dimensions)
            ref = DatasetRef(self.dt, dc, run="run")
            b.ingest(FileDataset(path=os.path.join(self.ext, f"s{d}.yaml"), refs=[ref]), transfer=mode)
        elif name == "assoc":
            b.registry.associate("tag", [self.ref_of(a[0])])
        elif name == "untag":
            b.pruneDatasets([self.ref_of(a[0])], disassociate=True, tags=["tag"], unstore=False, purge=False)
        elif name == "cert":
            b.registry.certify("calib", [self.ref_of(a[0])], self.ts(a[0]))
        elif name == "insdim":
            b.registry.insertDimensionData("instrument", {"name": f"G{a[0]}", "detector_max": 10, "visit_max": 10,
                                                          "exposure_max": 10, "class_name": "none", "visit_system": 0})
        elif name == "expand":
            b.registry.expandDataId(instrument=f"G{a[0]}")
        elif name == "purge":
            b.pruneDatasets([self.ref_of(a[0])], disassociate=True, unstore=True, purge=True)
        elif name == "unstore":
            b.pruneDatasets([self.ref_of(a[0])], disassociate=False, unstore=True, purge=False)
        elif name == "emptytrash":
            b._datastore.emptyTrash()
        elif name == "transfer":
            sb = self.src_butler()
            INJ.suspend += 1
            try:
                ref = sb.find_dataset("dt", self.did(a[0]), collections="run")
            finally:
                INJ.suspend -= 1
            b.transfer_from(sb, [ref], transfer="copy")
        elif name == "import":
            srcdir = os.path.dirname(self.top)
            b.import_(directory=os.path.join(srcdir, "src"), filename=os.path.join(srcdir, f"export{a[0]}.yaml"), transfer="copy")
        else:
            raise ValueError(f"unknown op {name}")

    def run_prog(self, p):
        k = p[0]
        if k == "op":
            self.op(p[1], *p[2:])
        elif k == "block":
            with self.butler.transaction():
                for q in p[1]:
                    self.run_prog(q)
        elif k == "try":
            # the statement, checked where the program itself catches a failure: a failing additive construct (operation
            # or Butler.transaction block) must leave everything as it was when the construct was entered
            # (the statement names Butler.transaction blocks and the additive operations put / ingest; insertDimensionData
            # failing at its second statement keeps its first row until the enclosing transaction ends -- not claimed)
            watch = _additive(p[1]) and (p[1][0] == "block" or (p[1][0] == "op" and p[1][1] in ("put", "ingest", "transfer", "import")))
            before = self.light() if watch else None
            try:
                self.run_prog(p[1])
            except Exception as e:  # noqa: BLE001  (the program's own `except Exception: pass`)
                if watch:
                    after = self.light()
                    if after != before:
                        self.escapes.append({"exc": type(e).__name__, "construct": p[1][0] if p[1][0] != "op" else p[1][1],
                                             "before": before, "after": after})
        elif k == "fail":
            raise UserFail("user exception")
        else:
            raise ValueError(p)

    def light(self):
        """Cheap fingerprint of what THIS client's connection sees right now (inside whatever transaction is open) plus
        the file listings; raw SQL on the client's own connection, so that no Butler cache is touched.  Not a boundary."""
        import sqlalchemy
        INJ.suspend += 1
        try:
            out = {}
            db = self.butler._registry._db
            try:
                if self._tables is None:
                    with db.query(sqlalchemy.text("select name from sqlite_master where type='table'")) as res:
                        names = sorted(r[0] for r in res.fetchall())
                    self._tables = [n for n in names if n in ("dataset", "instrument", "dataset_location", "file_datastore_records")
                                    or n.startswith("dataset_tags_") or n.startswith("dataset_calibs_")]
                for tb in self._tables:
                    with db.query(sqlalchemy.text(f"select count(*) from {tb}")) as res:
                        out[tb] = int(res.fetchall()[0][0])
            except Exception as e:  # noqa: BLE001
                out["error"] = f"{type(e).__name__}:{str(e)[:80]}"
            out["fs"] = sorted(fixture.listing(self.root))
            out["ext"] = sorted(os.listdir(self.ext))
            return out
        finally:
            INJ.suspend -= 1

    # -- observation -----------------------------------------------------------------------
    def observe(self):
        """What this client sees after the program (same Butler object), plus raw rows and the root listing."""
        b = self.butler
        obs = {"errors": []}

        def guard(name, fn, default):
            try:
                return fn()
            except Exception as e:  # noqa: BLE001
                obs["errors"].append(f"{name}:{type(e).__name__}:{str(e)[:80]}")
                return default

        refs = guard("query_datasets", lambda: list(b.query_datasets("dt", collections="run", find_first=False, explain=False,
                                                                      limit=None)), [])
        byslot = {int(r.dataId["detector"]): r for r in refs}
        obs["ds"] = sorted(byslot)
        obs["ds_legacy"] = guard("queryDatasets", lambda: sorted(int(r.dataId["detector"]) for r in
                                                                 b.registry.queryDatasets("dt", collections="run")), [])
        obs["find"] = sorted(d for d in range(NSLOT) if guard("find", lambda d=d: b.find_dataset("dt", self.did(d), collections="run"), None) is not None)
        obs["tags"] = guard("tag", lambda: sorted(int(r.dataId["detector"]) for r in b.query_datasets(
            "dt", collections="tag", find_first=False, explain=False, limit=None)), [])
        obs["certs"] = guard("calib", lambda: sorted(int(a.ref.dataId["detector"]) for a in b.registry.queryDatasetAssociations(
            "dt", collections=["calib"])), [])
        obs["stored"] = sorted(d for d, r in byslot.items() if guard("stored", lambda r=r: b.stored(r), False))
        got = []
        for d, r in sorted(byslot.items()):
            try:
                x = b.get(r)
                got.append([d, int(x.get("v", -1)) if x.get("slot") == d else -2])
            except FileNotFoundError:
                got.append([d, -1])             # recorded but cannot be read: no artifact
            except Exception as e:  # noqa: BLE001
                got.append([d, -3])
                obs["errors"].append(f"get:{type(e).__name__}")
        obs["get"] = got
        obs["dims"] = guard("dims", lambda: sorted(int(r.name[1:]) for r in b.query_dimension_records("instrument", explain=False)
                                                  if r.name.startswith("G")), [])
        vis = []
        for g in range(NGOV):
            try:
                b.registry.expandDataId(instrument=f"G{g}")
                vis.append(g)
            except Exception:  # noqa: BLE001
                pass
        obs["dimvis"] = vis
        obs["ptr_none"] = b._datastore._transaction is None
        obs["in_sql_txn"] = bool(b._registry._db.isInTransaction())
        obs.update(self.raw())
        return obs

    def raw(self):
        import yaml
        out = {}
        con = sqlite3.connect(f"file:{self.root}/gen3.sqlite3?mode=ro", uri=True, timeout=30)
        try:
            cur = con.cursor()
            det = {}
            for tb, in cur.execute("select name from sqlite_master where type='table' and name like 'dataset_tags_%'").fetchall():
                names = [r[1] for r in cur.execute(f"pragma table_info({tb})")]
                if "detector" in names:
                    for i, dd in cur.execute(f"select dataset_id, detector from {tb}"):
                        det[bytes(i) if not isinstance(i, str) else i] = int(dd)

            def slots(q):
                res = []
                for (i,) in cur.execute(q):
                    res.append(det.get(bytes(i) if not isinstance(i, str) else i, -1))
                return sorted(res)
            out["raw_ds"] = slots("select id from dataset")
            out["raw_loc"] = slots("select dataset_id from dataset_location")
            out["raw_trash_n"] = cur.execute("select count(*) from dataset_location_trash").fetchone()[0]
            out["raw_recs"] = sorted(p for (p,) in cur.execute("select path from file_datastore_records"))
            out["raw_dims"] = sorted(int(n[1:]) for (n,) in cur.execute("select name from instrument") if n.startswith("G"))
        finally:
            con.close()
        files, odd = [], []
        for rel, _ in sorted(fixture.listing(self.root).items()):
            p = os.path.join(self.root, rel)
            try:
                y = yaml.safe_load(open(p))
                files.append([int(y["slot"]), int(y["v"])])
            except Exception:  # noqa: BLE001
                odd.append(rel)
        out["fs"] = sorted(files)
        out["fs_paths"] = sorted(fixture.listing(self.root))
        out["fs_odd"] = odd
        ext = []
        for f in sorted(os.listdir(self.ext)):
            try:
                y = yaml.safe_load(open(os.path.join(self.ext, f)))
                ext.append([int(y["slot"]), int(y["v"])])
            except Exception:  # noqa: BLE001
                ext.append([-1, -1])
        out["ext"] = sorted(ext)
        return out


def build_base(top, pre):
    """Template world: repository + staging area, with the committed pre-history applied fault-free."""
    import yaml
    root = os.path.join(top, "repo")
    os.makedirs(os.path.join(top, "ext"))
    _, b = fixture.make_repo(root)
    fixture.add_instrument(b, name="I0", detectors=range(NSLOT), filters=())
    fixture.add_dataset_type(b, "dt", is_calibration=True)
    from lsst.daf.butler import CollectionType
    b.registry.registerRun("run")
    b.registry.registerCollection("tag", CollectionType.TAGGED)
    b.registry.registerCollection("calib", CollectionType.CALIBRATION)
    b._registry._db._engine.dispose()
    del b
    for d in range(NSLOT):
        with open(os.path.join(top, "ext", f"s{d}.yaml"), "w") as f:
            yaml.safe_dump({"slot": d, "v": 100 + d}, f)
    w = World(top)
    outs = []
    try:
        for p in pre:
            try:
                w.run_prog(p)
                outs.append("Normal")
            except Exception as e:  # noqa: BLE001
                outs.append("Raised:" + type(e).__name__)
    finally:
        w.close()
    return outs


def _has_removal(p):
    if p[0] == "op":
        return p[1] in ("purge", "unstore", "emptytrash")
    if p[0] == "block":
        return any(_has_removal(q) for q in p[1])
    if p[0] == "try":
        return _has_removal(p[1])
    return False


def _uses_transfer(p):
    if p[0] == "op":
        return p[1] in ("transfer", "import")
    if p[0] == "block":
        return any(_uses_transfer(q) for q in p[1])
    if p[0] == "try":
        return _uses_transfer(p[1])
    return False


def build_source(top):
    """Source repository of transfer_from: same universe / dataset type / run name, one stored dataset per slot."""
    src = os.path.join(top, "src")
    _, b = fixture.make_repo(src)
    fixture.add_instrument(b, name="I0", detectors=range(NSLOT), filters=())
    fixture.add_dataset_type(b, "dt", is_calibration=True)
    b.registry.registerRun("run")
    refs = [b.put({"slot": d, "v": 200 + d}, "dt", {"instrument": "I0", "detector": d}, run="run") for d in range(NSLOT)]
    for d, ref in enumerate(refs):
        with b.export(filename=os.path.join(top, f"export{d}.yaml"), transfer=None) as ex:
            ex.saveDatasets([ref])
    b._registry._db._engine.dispose()


def run_one(base, work, prog, at, flavour, follow=None):
    """Copy the template world, run `prog` with a fault at event `at` (None = fault-free), observe; then optionally run the
    follow-up programs fault-free (e.g. emptytrash) and observe again."""
    if os.path.exists(work):
        shutil.rmtree(work)
    shutil.copytree(base, work, symlinks=True)
    w = World(work)
    try:
        INJ.n, INJ.at, INJ.flavour, INJ.fired, INJ.trace, INJ.suspend = 0, at, flavour, None, [], 0
        INJ.active = True
        try:
            w.run_prog(prog)
            out = "Normal"
        except BaseException as e:  # noqa: BLE001
            out = "Raised:" + type(e).__name__
        finally:
            INJ.active = False
        res = {"out": out, "fired": INJ.fired, "nevents": INJ.n, "escapes": list(w.escapes), "obs": w.observe()}
        if at is None:
            res["trace"] = list(INJ.trace)
        if follow == [["op", "emptytrash"]] and at is not None and not _has_removal(prog) and res["obs"].get("raw_trash_n") == 0 \
                and not res["obs"]["errors"]:
            # the follow-up emptyTrash of a FAULT run of a program without removals whose trash table is empty has nothing to
            # do: observing again would repeat the same fifteen queries (a quarter of the run time).  The fault-free run of every
            # program and every run of a program containing a removal still execute and observe the follow-up.
            res["follow_out"] = ["Normal"]
            res["follow_obs"] = res["obs"]
        elif follow:
            fo = []
            for q in follow:
                try:
                    w.run_prog(q)
                    fo.append("Normal")
                except Exception as e:  # noqa: BLE001
                    fo.append("Raised:" + type(e).__name__)
            res["follow_out"] = fo
            res["follow_obs"] = w.observe()
        return res
    finally:
        w.close()
        shutil.rmtree(work, ignore_errors=True)


def run_cases(payload):
    """payload {"cases": [{"pre": [prog..], "prog": prog, "flavours": [...], "positions": "all"|[k..], "follow": [prog..]}]}
    -> [{"pre_out": [...], "pre_obs": obs, "free": run, "faults": [{"at": k, "flavour": f, run...}]}]"""
    patch_process()
    out = []
    for case in payload["cases"]:
        top = fixture.new_root("c07")
        t0 = time.time()
        try:
            base = os.path.join(top, "base")
            os.makedirs(base)
            if any(_uses_transfer(p) for p in list(case.get("pre", [])) + [case["prog"]]):
                build_source(top)
            pre_out = build_base(base, case.get("pre", []))
            w = World(base)
            try:
                pre_obs = w.observe()
            finally:
                w.close()
            follow = case.get("follow")
            free = run_one(base, os.path.join(top, "w"), case["prog"], None, "natural", follow)
            n = free["nevents"]
            pos = case.get("positions", "all")
            ks = list(range(n)) if pos == "all" else [k for k in pos if k < n]
            faults = []
            for fl in case.get("flavours", ["natural"]):
                for k in ks:
                    r = run_one(base, os.path.join(top, "w"), case["prog"], k, fl, follow)
                    r["at"], r["flavour"] = k, fl
                    faults.append(r)
            out.append({"pre_out": pre_out, "pre_obs": pre_obs, "free": free, "faults": faults, "wall": round(time.time() - t0, 2)})
        finally:
            fixture.cleanup(top)
    return out
