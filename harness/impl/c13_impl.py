"""C13 implementation driver: the REAL DataCoordinate / Registry.expandDataId / Butler.put+get on a scratch SQLite
repository.  Runs in a worker subprocess (common.run_worker); JSON in, JSON out.

Value wire format: ["i", n] int | ["s", text] str | ["np64", n] numpy.int64 | ["np32", n] numpy.int32 |
["b", true] bool | ["n"] None.  Observed values come back as ["i", n] / ["s", text] / ["n"] plus a flag that says
whether every value had exactly the Python type int or str.
"""
from __future__ import annotations

import json
import traceback

from harness.impl import fixture


def dec(v):
    import numpy as np
    t = v[0]
    if t == "i":
        return int(v[1])
    if t == "s":
        return str(v[1])
    if t == "np64":
        return np.int64(v[1])
    if t == "np32":
        return np.int32(v[1])
    if t == "npu8":
        return np.uint8(v[1])
    if t == "b":
        return bool(v[1])
    if t == "n":
        return None
    if t == "bytes":
        return bytes.fromhex(v[1])
    raise ValueError(v)


def enc(v):
    if v is None:
        return ["n"]
    if isinstance(v, bool):
        return ["b", v]
    if isinstance(v, int):
        return ["i", int(v)]
    if isinstance(v, str):
        return ["s", v]
    try:
        import numbers
        if isinstance(v, numbers.Integral):
            return ["np", int(v)]
    except Exception:  # noqa: BLE001
        pass
    if isinstance(v, bytes):
        return ["bytes", v.hex()]
    return ["other", repr(v)[:80]]


def ecls(e: BaseException) -> str:
    """fixture.err_class, except that a plain ValueError is reported under its own name"""
    c = fixture.err_class(e)
    if c == "Cycle" and type(e).__name__ != "CollectionCycleError":
        return type(e).__name__
    return c


def describe_universe(universe):
    out = []
    for e in universe.elements:
        if e.name.startswith(("htm", "healpix")) and e.name not in ("htm7", "healpix5"):
            continue
        out.append({
            "name": e.name, "required": list(e.required.names), "implied": list(e.implied.names),
            "is_dimension": e.name in universe.dimensions.names, "defines_relationships": bool(e.defines_relationships),
            "always_join": bool(e.alwaysJoin), "minimal_required": list(e.minimal_group.required),
            "view_of": getattr(e.implied_union_target, "name", None),
            "pk_type": (e.primaryKey.getPythonType().__name__ if hasattr(e, "primaryKey") else None),
            "alternate": [k.name for k in getattr(e, "alternateKeys", [])],
            "alternate_types": [[k.name, k.getPythonType().__name__] for k in getattr(e, "alternateKeys", [])],
        })
    return out


class World:
    def __init__(self, payload):
        self.payload = payload
        # payload["universe"]: None = the current dimensions.yaml, N = configs/old_dimensions/daf_butler_universeN.yaml
        self.root, self.butler = fixture.make_repo(dimension_universe=payload.get("universe"))
        self.reg = self.butler.registry
        self.universe = self.butler.dimensions
        self.cache = {}
        self.rec_index = {}
        self.insert_log = []
        for el, rec in payload.get("population", []):
            try:
                if el not in self.universe.elements.names:
                    self.insert_log.append("no-such-element")
                    continue
                fields = set(self.universe[el].RecordClass.fields.names)
                row = {}
                for k, v in rec.items():
                    # "?name": a field only older universes have (visit.visit_system); anything the universe's record
                    # class does not know is dropped (day_obs / group are dimensions only in recent universes)
                    name = k[1:] if k.startswith("?") else k
                    if name in fields:
                        row[name] = dec(v)
                self.reg.insertDimensionData(el, row)
                self.insert_log.append("ok")
            except Exception as e:  # noqa: BLE001
                self.insert_log.append(ecls(e))
        self.default_instrument = payload.get("default_instrument")
        self.defaults_dc = None
        if self.default_instrument is not None:
            from lsst.daf.butler import DataCoordinate
            from lsst.daf.butler.registry import RegistryDefaults
            try:
                self.butler.registry.defaults = RegistryDefaults(instrument=self.default_instrument)
            except Exception as e:  # noqa: BLE001
                self.insert_log.append("defaults:" + ecls(e))
            self.defaults_dc = DataCoordinate.standardize({"instrument": self.default_instrument}, universe=self.universe)

    def close(self):
        fixture.cleanup(self.root)

    # -- stored records read back through the public query interface -------------------------------
    def rec_obs(self, element, rec):
        if rec is None:
            return None
        # the key values are read from the record's own fields (not from record.dataId: for a join table whose minimal
        # group only implies one of its required dimensions -- visit_definition in daf_butler universes 0 and 1 -- that
        # data ID pairs the values with the wrong names)
        key = []
        for d in element.required.names:
            if d == element.name:
                key.append(enc(getattr(rec, element.primaryKey.name)))
            else:
                key.append(enc(getattr(rec, d)))
        imp = [enc(getattr(rec, d)) for d in element.implied.names]
        return {"key": key, "imp": imp}

    def join_table_rows(self, e):
        """the rows of a join table straight from the SQLite file (None if the element has no table of its own)"""
        import sqlite3
        con = sqlite3.connect(f"file:{self.root}/gen3.sqlite3?mode=ro", uri=True, timeout=30)
        try:
            con.row_factory = sqlite3.Row
            try:
                cur = con.execute(f'SELECT * FROM "{e.name}"')
            except sqlite3.Error:
                return None
            names = list(e.required.names) + list(e.implied.names)
            out = []
            for row in cur.fetchall():
                cols = set(row.keys())
                if not set(names) <= cols:
                    return None
                out.append(e.RecordClass(**{n: row[n] for n in names}))
            return out
        finally:
            con.close()

    def read_db(self):
        """the rows stored in SQLite right now, seen through an INDEPENDENT freshly opened Butler (the working
        Butler's in-memory dimension-record cache must not be what the expansions are compared with)"""
        fresh = fixture.open_repo(self.root, writeable=False)
        out = {}
        self.rec_index = {}
        for e in self.universe.elements:
            if e.name in self.universe.skypix_dimensions.names:
                continue
            rows = []
            recs = None
            if e.name not in self.universe.dimensions.names:
                # a join table: queryDimensionRecords joins it with the dimension tables and silently drops the rows that
                # relate records disagreeing on a common implied dimension (a visit_definition between a visit and an
                # exposure with different filters), but fetch_one / expandDataId see the plain table -- read it as it is
                recs = self.join_table_rows(e)
            if recs is None:
                recs = list(fresh.registry.queryDimensionRecords(e.name))
            for r in recs:
                o = self.rec_obs(e, r)
                rows.append(o)
                self.rec_index[(e.name, json.dumps(o["key"]))] = r
            rows.sort(key=lambda x: json.dumps(x))
            out[e.name] = rows
        return out

    # -- building data IDs ---------------------------------------------------------------------
    def build(self, spec):
        key = json.dumps(spec, sort_keys=True)
        if key in self.cache:
            r = self.cache[key]
            if isinstance(r, BaseException):
                raise r
            return r
        try:
            r = self._build(spec)
        except Exception as e:  # noqa: BLE001
            self.cache[key] = e
            raise
        self.cache[key] = r
        return r

    def _build(self, spec):
        from lsst.daf.butler import DataCoordinate
        k = spec["k"]
        if k in ("std", "exp"):
            mapping = None if spec.get("mapping") is None else {a: dec(b) for a, b in spec["mapping"]}
            kwargs = {a: dec(b) for a, b in spec.get("kwargs", [])}
            dims = spec.get("dims")
            if k == "std":
                return DataCoordinate.standardize(mapping, dimensions=dims, universe=self.universe,
                                                  defaults=self.defaults_dc if spec.get("defaults") else None, **kwargs)
            if spec.get("records") is not None:
                return self.reg.expandDataId(mapping, dimensions=dims, records=self.records_arg(spec["records"]),
                                             withDefaults=bool(spec.get("defaults")), **kwargs)
            return self.reg.expandDataId(mapping, dimensions=dims, withDefaults=bool(spec.get("defaults")), **kwargs)
        if k == "expdc":
            kwargs = {a: dec(b) for a, b in spec.get("kwargs", [])}
            extra = {} if spec.get("records") is None else {"records": self.records_arg(spec["records"])}
            return self.reg.expandDataId(self.build(spec["of"]), dimensions=spec.get("dims"),
                                         withDefaults=bool(spec.get("defaults")), **extra, **kwargs)
        if k == "sub":
            return self.build(spec["of"]).subset(spec["dims"])
        if k == "stddc":
            kwargs = {a: dec(b) for a, b in spec.get("kwargs", [])}
            return DataCoordinate.standardize(self.build(spec["of"]), dimensions=spec.get("dims"), universe=self.universe,
                                              defaults=self.defaults_dc if spec.get("defaults") else None, **kwargs)
        if k == "union":
            return self.build(spec["a"]).union(self.build(spec["b"]))
        raise ValueError(k)

    def records_arg(self, entries):
        """records= : [[element, {dimension: value}]] -> the stored DimensionRecord whose key is the values given for the
        element's required dimensions (entries naming no stored row, an unknown element or lacking a key value are not
        passed); [element, None] -> an explicit None"""
        out = {}
        for el, vals in entries:
            if el not in self.universe.elements.names:
                continue
            if vals is None:
                out[el] = None
                continue
            try:
                key = [enc(dec(vals[d])) for d in self.universe[el].required.names]
            except KeyError:
                continue
            key = [["i", int(x[1])] if x[0] in ("np", "b") else x for x in key]
            r = self.rec_index.get((el, json.dumps(key)))
            if r is not None:
                out[el] = r
        return out

    def obs(self, d):
        items = [[k, enc(v)] for k, v in d.mapping.items()]
        o = {"names": list(d.dimensions.names), "full": bool(d.hasFull()), "hasrec": bool(d.hasRecords()), "items": items,
             "cls": type(d).__name__, "required": [[k, enc(v)] for k, v in d.required.items()],
             "types_exact": all(type(v) in (int, str) for v in d.mapping.values())}
        if d.hasRecords():
            o["recs"] = [[e, self.rec_obs(self.universe[e], d.records[e])] for e in d.dimensions.elements]
        return o

    def try_obs(self, f):
        try:
            return {"ok": self.obs(f())}
        except Exception as e:  # noqa: BLE001
            return {"err": ecls(e), "msg": str(e)[:160]}


def op_build(w: World, op):
    return w.try_obs(lambda: w.build(op["spec"]))


def op_pair(w: World, op):
    try:
        a = w.build(op["a"])
        b = w.build(op["b"])
    except Exception as e:  # noqa: BLE001
        return {"skip": ecls(e)}
    out = {"a": w.obs(a), "b": w.obs(b)}
    try:
        out["eq"] = bool(a == b)
        out["eq_rev"] = bool(b == a)
        out["ne"] = bool(a != b)
        out["hasheq"] = hash(a) == hash(b)
        out["set_size"] = len({a, b})
        out["dict_hit"] = ({a: 1}.get(b) == 1)
    except Exception as e:  # noqa: BLE001
        out["eq_err"] = ecls(e)
    out["uab"] = w.try_obs(lambda: a.union(b))
    out["uba"] = w.try_obs(lambda: b.union(a))
    return out


def op_xunion(w: World, op):
    """union of two (expanded) data IDs looked at closely: what it claims (hasRecords), the record of EVERY element of its
    group one by one, and Registry.expandDataId of it next to the expansion of the same values given as a plain mapping"""
    try:
        a = w.build(op["a"])
        b = w.build(op["b"])
    except Exception as e:  # noqa: BLE001
        return {"skip": ecls(e)}
    try:
        u = a.union(b)
    except Exception as e:  # noqa: BLE001
        return {"union_err": ecls(e), "msg": str(e)[:160]}
    out = {"names": list(u.dimensions.names), "elements": list(u.dimensions.elements), "full": bool(u.hasFull()),
           "hasrec": bool(u.hasRecords()), "items": [[k, enc(v)] for k, v in u.mapping.items()],
           "required": [[k, enc(v)] for k, v in u.required.items()], "a_hasrec": bool(a.hasRecords()), "b_hasrec": bool(b.hasRecords())}
    recs = []
    if u.hasRecords():
        for e in u.dimensions.elements:
            try:
                recs.append([e, {"ok": w.rec_obs(w.universe[e], u.records[e])}])
            except Exception as ex:  # noqa: BLE001
                recs.append([e, {"err": ecls(ex)}])
    out["recs"] = recs
    out["expand_union"] = w.try_obs(lambda: w.reg.expandDataId(u))
    out["expand_plain"] = w.try_obs(lambda: w.reg.expandDataId(dict(u.mapping)))
    return out


def op_get(w: World, op):
    try:
        d = w.build(op["spec"])
    except Exception as e:  # noqa: BLE001
        return {"skip": ecls(e)}
    try:
        v = d[op["key"]]
        res = {"value": enc(v)}
    except KeyError:
        res = {"value": None}
    res["contains"] = op["key"] in d
    res["get_default"] = enc(d.get(op["key"], "<<default>>"))
    return res


def op_eqmap(w: World, op):
    try:
        d = w.build(op["spec"])
    except Exception as e:  # noqa: BLE001
        return {"skip": ecls(e)}
    m = {a: dec(b) for a, b in op["m"]}
    try:
        return {"eq": bool(d == m)}
    except Exception as e:  # noqa: BLE001
        return {"err": ecls(e)}


def op_rollback(w: World, op):
    """Regression for 97d3978: a record inserted in a transaction that rolls back must not stay expandable."""
    out = {}
    name = op.get("name", "Ghost")

    class Boom(Exception):
        pass
    try:
        with w.butler.transaction():
            w.reg.insertDimensionData("instrument", {"name": name})
            out["inside"] = w.try_obs(lambda: w.reg.expandDataId(instrument=name))
            raise Boom()
    except Boom:
        pass
    out["after"] = w.try_obs(lambda: w.reg.expandDataId(instrument=name))
    out["stored_after"] = [r.name for r in w.reg.queryDimensionRecords("instrument")]
    return out


def op_putget(w: World, op):
    """put under primary keys, then find / get the dataset through alternate spellings of the data ID."""
    from lsst.daf.butler import CollectionType
    out = {"lookups": []}
    dtname = op["dataset_type"]
    try:
        fixture.add_dataset_type(w.butler, dtname, dimensions=op["dimensions"])
    except Exception as e:  # noqa: BLE001
        out["dt_err"] = ecls(e)
    run = op.get("run", "r1")
    w.reg.registerCollection(run, CollectionType.RUN)
    out["puts"] = []
    for i, p in enumerate(op["puts"]):
        try:
            did = {a: dec(b) for a, b in p}
            ref = w.butler.put({"payload": i}, dtname, did, run=run)
            out["puts"].append({"ok": [[k, enc(v)] for k, v in ref.dataId.required.items()]})
        except Exception as e:  # noqa: BLE001
            out["puts"].append({"err": ecls(e), "msg": str(e)[:120]})
    out["fdb"] = {}
    for el in op.get("field_elements", []):
        e = w.universe[el]
        rows = []
        for r in w.reg.queryDimensionRecords(el):
            o = w.rec_obs(e, r)
            skip = set(e.required.names) | {"id", "name"}
            fields = []
            for f in e.RecordClass.fields.names:
                if f in skip:
                    continue
                v = getattr(r, f, None)
                if isinstance(v, (int, str)) and not isinstance(v, bool):
                    fields.append([f, enc(v)])
            # the primary key under its field name too (`detector.id`, `exposure.id`)
            if hasattr(e, "primaryKey"):
                fields.append([e.primaryKey.name, o["key"][-1]])
            o["fields"] = fields
            rows.append(o)
        rows.sort(key=lambda x: json.dumps(x))
        out["fdb"][el] = rows
    for lk in op["lookups"]:
        did = {a: dec(b) for a, b in lk.get("mapping", [])}
        kw = {a: dec(b) for a, b in lk.get("kwargs", [])}
        r = {}
        try:
            got = w.butler.get(dtname, did, collections=run, **kw)
            r["get"] = {"ok": got.get("payload")}
        except Exception as e:  # noqa: BLE001
            r["get"] = {"err": ecls(e), "msg": str(e)[:160]}
        try:
            ref = w.butler.find_dataset(dtname, did, collections=run, **kw)
            r["find"] = {"ok": None if ref is None else [[k, enc(v)] for k, v in ref.dataId.required.items()]}
        except Exception as e:  # noqa: BLE001
            r["find"] = {"err": ecls(e), "msg": str(e)[:160]}
        out["lookups"].append(r)
    return out


def op_mutate(w: World, op):
    """change stored dimension records through the working Butler AFTER its caches were loaded, then read the rows back"""
    rec = {k: dec(v) for k, v in op["record"].items()}
    out = {}
    try:
        if op["how"] == "sync":
            r = w.reg.syncDimensionData(op["element"], rec, update=bool(op.get("update")))
            out["result"] = "updated" if isinstance(r, dict) else ("inserted" if r is True else "noop")
            if isinstance(r, dict):
                out["old"] = {k: enc(v) for k, v in r.items()}
        elif op["how"] == "insert_replace":
            w.reg.insertDimensionData(op["element"], rec, replace=True)
            out["result"] = "replaced"
        else:
            raise ValueError(op["how"])
    except Exception as e:  # noqa: BLE001
        out["err"] = ecls(e)
        out["msg"] = str(e)[:160]
    w.cache.clear()      # data IDs built before the change are rebuilt on demand
    out["db"] = w.read_db()
    return out


OPS = {"xunion": op_xunion, "mutate": op_mutate, "build": op_build, "pair": op_pair, "get": op_get, "eqmap": op_eqmap, "rollback": op_rollback, "putget": op_putget}


def run_batch(payload):
    w = World(payload)
    try:
        res = {"universe": describe_universe(w.universe), "inserts": w.insert_log}
        res["db"] = w.read_db()
        out = []
        for op in payload["ops"]:
            try:
                out.append(OPS[op["op"]](w, op))
            except Exception as e:  # noqa: BLE001
                out.append({"driver_error": f"{type(e).__name__}: {e}", "tb": traceback.format_exc()[-600:]})
        res["results"] = out
        res["db_after"] = w.read_db() if payload.get("reread_db") else None
        return res
    finally:
        w.close()
