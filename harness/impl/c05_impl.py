"""C05 implementation driver: one populated repository per worker call, many where-expressions per call.

Everything here runs inside a worker subprocess (common.run_worker) against the REAL Butler of the tree under test.

  * `fixture_rows()` is pure data (also used by nothing else: the check reads the table CONTENTS back from SQLite with
    `dump_tables`, so that model and oracle work on what the database holds, not on what we meant to insert);
  * `run_cases(payload)` builds the repository, dumps the dimension tables with plain sqlite3, and evaluates every
    case  {target, api, where, bind}  through the public query interfaces, returning canonical row keys or the error class.

Row keys are small tuples of dimension values (ints / short strings); dataset rows are (run, data-id...) tuples.
"""
from __future__ import annotations

import sqlite3
import traceback

from harness.impl import fixture

INSTR = "Cam"
INSTR2 = "Oth"
NDET = 41
FILTERS = (("g1", "g"), ("g2", "g"), ("r1", "r"), ("i1", "i"))
DAYS = (20240101, 20240102, 20240103)
NVISIT = 12
FILTERS2 = (("o1", "g"), ("o2", "z"))
COLLS = ["r1", "r2", "rO", "rm"]     # r1, r2: Cam only; rO: Oth only; rm: both (collection summaries differ in their governors)
NEXP = 24
T0 = 1_700_000_000  # seconds (unix_tai) of the first timespan


def detector_rows():
    out = []
    for d in range(NDET):
        out.append({"instrument": INSTR, "id": d, "full_name": f"det{d:02d}", "name_in_raft": f"d{d % 9}",
                    "raft": None if d % 8 == 5 else f"R{(d * 3) % 5}",
                    "purpose": None if d % 7 == 3 else ("SCIENCE" if d % 3 else "GUIDER")})
    for d in (0, 1, 2, 50):
        out.append({"instrument": INSTR2, "id": d, "full_name": f"oth{d:02d}", "name_in_raft": None, "raft": "R1",
                    "purpose": "SCIENCE" if d else None})
    return out


def visit_rows():
    out = []
    for v in range(1, NVISIT + 1):
        pf = FILTERS[(v * 3) % len(FILTERS)][0]
        out.append({
            "instrument": INSTR, "id": v, "name": f"v{v:03d}", "physical_filter": pf, "day_obs": DAYS[v % 3],
            "seq_num": None if v % 5 == 0 else (v * 7) % 4 - 1,                    # -1..2, ties and NULLs
            "exposure_time": None if v % 4 == 1 else 7.5 * ((v * 5) % 3),        # 0.0 / 7.5 / 15.0 (exact binary fractions)
            "target_name": None if v % 6 == 2 else ("T%d" % ((v * 3) % 5)),
            "science_program": "P%d" % (v % 2),
            "zenith_angle": None if v % 7 == 3 else (v % 4) * 0.25 - 0.5,        # -0.5 .. 0.25
            "_span": None if v % 6 == 4 else (T0 + 100 * v, T0 + 100 * v + 30),
        })
    for v in (1, 2, 3, 20):     # second instrument: ids overlap with the first on purpose
        out.append({
            "instrument": INSTR2, "id": v, "name": f"w{v:03d}", "physical_filter": FILTERS2[v % 2][0], "day_obs": DAYS[0],
            "seq_num": v - 2, "exposure_time": None if v == 3 else 2.5 * v, "target_name": "T1", "science_program": "P0",
            "zenith_angle": 0.25, "_span": None if v == 2 else (T0 + 100 * v + 10, T0 + 100 * v + 60),
        })
    return out


def exposure_rows():
    out = []
    for i in range(NEXP):
        e = 100 + i
        out.append({
            "instrument": INSTR, "id": e, "obs_id": f"o{e}", "physical_filter": FILTERS[(i * 5) % len(FILTERS)][0],
            "day_obs": DAYS[(i // 4) % 3], "group": f"G{i // 2}",
            "seq_num": None if i % 7 == 3 else (i * 11) % 6 - 2,
            "exposure_time": None if i % 5 == 2 else 2.5 * ((i * 7) % 4),
            "dark_time": None if i % 3 == 0 else 0.5 * ((i * 13) % 5),
            "target_name": None if i % 4 == 1 else ("T%d" % ((i * 7) % 5)),
            "science_program": None if i % 9 == 4 else ("P%d" % (i % 2)),
            "observation_type": "science" if i % 3 else "dark",
            "can_see_sky": None if i % 5 == 1 else bool(i % 2),
            "has_simulated": None if i % 4 == 3 else bool((i // 2) % 2),
            "_span": None if i % 8 == 6 else (T0 + 50 * i, T0 + 50 * i + 20),
        })
    return out


def dataset_plan():
    out = []
    for d in range(NDET):
        if d % 3 != 2:
            out.append(("flat", "r1", {"instrument": INSTR, "detector": d}))
        if d % 2 == 0:
            out.append(("flat", "r2", {"instrument": INSTR, "detector": d}))
    for v in range(1, NVISIT + 1):
        if v % 4 != 0:
            out.append(("vimg", "r1", {"instrument": INSTR, "visit": v}))
    for d in (0, 1, 2, 50):
        out.append(("flat", "rO", {"instrument": INSTR2, "detector": d}))
    for v in (1, 2, 3):
        out.append(("vimg", "rO", {"instrument": INSTR2, "visit": v}))
    for ins, d in ((INSTR, 1), (INSTR, 5), (INSTR2, 1), (INSTR2, 50)):
        out.append(("flat", "rm", {"instrument": ins, "detector": d}))
    for ins, v in ((INSTR, 4), (INSTR, 8), (INSTR2, 2), (INSTR2, 20)):
        out.append(("vimg", "rm", {"instrument": ins, "visit": v}))
    return out


def _time(sec):
    import astropy.time
    return astropy.time.Time(sec, format="unix_tai", scale="tai")


def _span(p):
    from lsst.daf.butler import Timespan
    return Timespan(_time(p[0]), _time(p[1]))


def build_repo(root=None):
    root, butler = fixture.make_repo(root)
    reg = butler.registry
    for ins in (INSTR, INSTR2):
        reg.insertDimensionData("instrument", {"name": ins, "detector_max": 100, "visit_max": 10000, "exposure_max": 10000,
                                               "class_name": "none", "visit_system": 0})
    reg.insertDimensionData("detector", *detector_rows())
    for pf, band in FILTERS:
        reg.insertDimensionData("physical_filter", {"instrument": INSTR, "name": pf, "band": band})
    for pf, band in FILTERS2:
        reg.insertDimensionData("physical_filter", {"instrument": INSTR2, "name": pf, "band": band})
    for i, d in enumerate(DAYS):
        reg.insertDimensionData("day_obs", {"instrument": INSTR, "id": d,
                                            "timespan": _span((T0 + 86400 * i - 40000, T0 + 86400 * i + 40000))})
    reg.insertDimensionData("day_obs", {"instrument": INSTR2, "id": DAYS[0], "timespan": _span((T0 - 40000, T0 + 40000))})
    for r in visit_rows():
        rec = {k: v for k, v in r.items() if not k.startswith("_")}
        rec["timespan"] = None if r["_span"] is None else _span(r["_span"])
        reg.insertDimensionData("visit", rec)
    groups = sorted({r["group"] for r in exposure_rows()})
    reg.insertDimensionData("group", *[{"instrument": INSTR, "name": g} for g in groups])
    for r in exposure_rows():
        rec = {k: v for k, v in r.items() if not k.startswith("_")}
        rec["timespan"] = None if r["_span"] is None else _span(r["_span"])
        reg.insertDimensionData("exposure", rec)
    fixture.add_dataset_type(butler, "flat", ("instrument", "detector"))
    fixture.add_dataset_type(butler, "vimg", ("instrument", "visit"))
    for run in COLLS:
        reg.registerRun(run)
    from lsst.daf.butler import DatasetRef, DataCoordinate
    by = {}
    for dt, run, did in dataset_plan():
        by.setdefault((dt, run), []).append(did)
    for (dt, run), dids in by.items():
        reg.insertDatasets(dt, dids, run=run)
    return root, butler


def dump_tables(root):
    """Table contents as the database holds them (plain sqlite3, no Butler code)."""
    con = sqlite3.connect(f"file:{root}/gen3.sqlite3?mode=ro", uri=True)
    con.row_factory = sqlite3.Row
    out = {}
    for t in ("instrument", "detector", "physical_filter", "visit", "exposure", "day_obs"):
        out[t] = [dict(r) for r in con.execute(f'SELECT * FROM "{t}"')]
        for r in out[t]:
            r.pop("region", None)
    con.close()
    return out


# ------------------------------------------------------------------------------------------------------------
# bind decoding (JSON payload -> Python objects the interfaces accept)
# ------------------------------------------------------------------------------------------------------------

def decode_bind(b):
    out = {}
    for k, v in (b or {}).items():
        out[k] = _dec(v)
    return out


def _dec(v):
    t = v["t"]
    if t == "int":
        return int(v["v"])
    if t == "float":
        return float(v["v"])
    if t == "str":
        return str(v["v"])
    if t == "time":
        return _time(v["sec"])
    if t == "span":
        from lsst.daf.butler import Timespan
        return Timespan(None if v["b"] is None else _time(v["b"]), None if v["e"] is None else _time(v["e"]))
    if t == "list":
        return [_dec(x) for x in v["v"]]
    if t == "tuple":
        return tuple(_dec(x) for x in v["v"])
    if t == "set":
        return {_dec(x) for x in v["v"]}
    raise ValueError(t)


def err_class(e):
    from lsst.daf.butler import registry as R
    import lsst.daf.butler as B
    if isinstance(e, (B.InvalidQueryError, R.UserExpressionError)):
        return "InvalidQuery"
    c = fixture.err_class(e)
    return c


TARGET_DIMS = {
    "detector": ["instrument", "detector"],
    "visit": ["instrument", "visit"],
    "exposure": ["instrument", "exposure"],
    "visit_detector": ["instrument", "visit", "detector"],
}


def _key(did, dims):
    return [did[d] for d in dims]


def summary_of(butler, dims, datasets, where, bind):
    """PredicateConstraintsSummary.constraint_data_id of the where-expression (the stage that prunes dataset-search
    collections), observed directly"""
    from lsst.daf.butler.queries._expression_strings import convert_expression_string_to_predicate
    from lsst.daf.butler.queries._identifiers import IdentifierContext
    from lsst.daf.butler.queries.predicate_constraints_summary import PredicateConstraintsSummary
    ctx = IdentifierContext(butler.dimensions.conform(dims), set(datasets), bind or None)
    pred = convert_expression_string_to_predicate(where, context=ctx, universe=butler.dimensions)
    out = []
    for k, v in PredicateConstraintsSummary(pred).constraint_data_id.items():
        out.append([k, v if isinstance(v, (int, str)) and not isinstance(v, bool) else repr(v)])
    return out


def run_one(butler, case):
    """Evaluate one case; returns {'rows': sorted list of keys} or {'err': class, 'msg': text}."""
    target, api, where = case["target"], case["api"], case["where"]
    bind = decode_bind(case.get("bind"))
    kind, _, name = target.partition(":")
    try:
        if kind == "data_ids":
            dims = TARGET_DIMS[name]
            if api == "new":
                res = butler.query_data_ids(dims, where=where, bind=bind or None, explain=False, limit=None)
            else:
                res = list(butler.registry.queryDataIds(dims, where=where, bind=bind or None))
            rows = [_key(d, dims) for d in res]
        elif kind == "records":
            dims = TARGET_DIMS[name]
            if api == "new":
                res = butler.query_dimension_records(name, where=where, bind=bind or None, explain=False, limit=None)
            else:
                res = list(butler.registry.queryDimensionRecords(name, where=where, bind=bind or None))
            rows = [_key(r.dataId, dims) for r in res]
        elif kind == "datasets":
            dims = {"flat": ["instrument", "detector"], "vimg": ["instrument", "visit"]}[name]
            colls = case.get("collections", COLLS)
            if api == "new":
                res = butler.query_datasets(name, collections=colls, where=where, bind=bind or None, find_first=False,
                                            explain=False, limit=None)
            else:
                res = list(butler.registry.queryDatasets(name, collections=colls, where=where, bind=bind or None, findFirst=False))
            rows = [[r.run] + _key(r.dataId, dims) for r in res]
        elif kind == "dsdata":
            # data IDs of the datasets found by a dataset search (Query.join_dataset_search(...).where(...).data_ids(...))
            dims = {"flat": ["instrument", "detector"], "vimg": ["instrument", "visit"]}[name]
            colls = case.get("collections", COLLS)
            if api == "new":
                with butler.query() as q:
                    q = q.join_dataset_search(name, colls).where(where, bind=bind or None)
                    rows = [_key(d, dims) for d in q.data_ids(dims)]
            else:
                res = butler.registry.queryDataIds(dims, datasets=name, collections=colls, where=where, bind=bind or None)
                rows = [_key(d, dims) for d in res]
        else:
            raise ValueError(target)
    except Exception as e:  # noqa: BLE001
        return {"err": err_class(e), "msg": f"{type(e).__name__}: {str(e)[:300]}"}
    n = len(rows)
    rows = sorted(set(map(tuple, rows)), key=lambda t: tuple(str(x) for x in t))
    out = {"rows": [list(r) for r in rows], "dups": n - len(rows)}
    if api == "new":
        try:
            out["cdi"] = summary_of(butler, dims, [name] if kind in ("datasets", "dsdata") else [], where, bind)
        except Exception as e:  # noqa: BLE001
            out["cdi_err"] = f"{type(e).__name__}: {str(e)[:200]}"
    return out


def run_cases(payload):
    root, butler = build_repo()
    try:
        tables = dump_tables(root)
        out = []
        for c in payload["cases"]:
            try:
                out.append(run_one(butler, c))
            except Exception as e:  # noqa: BLE001
                out.append({"err": "Harness", "msg": traceback.format_exc()[-600:]})
        ds = []
        if payload.get("want_datasets", True):
            for dt in ("flat", "vimg"):
                dims = {"flat": ["instrument", "detector"], "vimg": ["instrument", "visit"]}[dt]
                for r in butler.registry.queryDatasets(dt, collections=COLLS, findFirst=False):
                    ds.append([dt, r.run] + _key(r.dataId, dims))
        return {"tables": tables, "results": out, "datasets": ds}
    finally:
        fixture.cleanup(root)
