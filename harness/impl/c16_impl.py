"""C16 implementation driver: one populated repository per worker, many query cases per worker call.

Everything here runs inside a worker subprocess (common.run_worker) against the REAL Butler of the tree under test.
Instrumentation is applied from outside the package:

  * `DirectQueryDriver.__init__` is wrapped so that the public constructor parameters `raw_page_size` and
    `postprocessing_filter_factor` take the values of the case (forces result sets over many pages);
  * `Postprocessing.apply` is wrapped to record, for every call, the raw page it was given and the remaining limit
    (structure only: used for the page-structure comparison, never for the verdict).

Row identities are small integers (dimension values); strings are only used for metadata columns and are mapped to
their rank by the caller.
"""
from __future__ import annotations

import contextlib
import json
import math
import os
import time

from harness.impl import fixture

INSTR = "Cam"
NDET = 41
FILTERS = (("g1", "g"), ("g2", "g"), ("r1", "r"), ("i1", "i"))
DAYS = (20240101, 20240102, 20240103)
NVISIT = 12
NEXP = 30
SKYMAP = "sky"
TRACTS = (0, 1)
PATCH_N = 3  # PATCH_N x PATCH_N patches per tract
T0 = 1_700_000_000  # seconds (unix_tai) of the first timespan


# ------------------------------------------------------------------------------------------------------------
# fixture content (pure data, shared with the oracle through `describe()`)
# ------------------------------------------------------------------------------------------------------------

def _box(ra0, dec0, w, h):
    """corners (degrees) of a small box [ra0, ra0+w] x [dec0, dec0+h]"""
    return [(ra0, dec0), (ra0 + w, dec0), (ra0 + w, dec0 + h), (ra0, dec0 + h)]


def visit_rows():
    out = []
    for v in range(1, NVISIT + 1):
        pf = FILTERS[(v * 3) % len(FILTERS)][0]
        out.append({
            "instrument": INSTR, "id": v, "name": f"v{v:03d}", "physical_filter": pf, "day_obs": DAYS[v % 3],
            "seq_num": None if v % 5 == 0 else (v * 7) % 4,           # small ints with ties and NULLs
            "exposure_time": None if v % 4 == 1 else float(15 * ((v * 5) % 3)),  # integer-valued floats, ties, NULLs
            "target_name": None if v % 6 == 2 else ("T%d" % ((v * 3) % 5)),
            "zenith_angle": float(v % 4),
            # boxes of 0.08 x 0.08 deg spread over ~0.7 x 0.5 deg: most visit/patch pairs share an htm7 trixel
            # without overlapping
            "_box": _box(10.0 + 0.17 * ((v * 5) % 4) + 0.01 * v, 5.0 + 0.16 * ((v * 3) % 3), 0.08, 0.08),
            "_span": (T0 + 100 * v, T0 + 100 * v + 30),
        })
    return out


def exposure_rows():
    out = []
    for i in range(NEXP):
        e = 100 + i
        out.append({
            "instrument": INSTR, "id": e, "obs_id": f"o{e}", "physical_filter": FILTERS[(i * 5) % len(FILTERS)][0],
            "day_obs": DAYS[(i // 4) % 3], "group": f"G{i // 2}",
            "seq_num": None if i % 7 == 3 else (i * 11) % 6,
            "exposure_time": None if i % 5 == 2 else float(10 * ((i * 7) % 4)),
            "dark_time": None if i % 3 == 0 else float((i * 13) % 5),
            "target_name": None if i % 4 == 1 else ("T%d" % ((i * 7) % 5)),
            "science_program": None if i % 9 == 4 else ("P%d" % (i % 2)),
            "observation_type": "science" if i % 3 else "dark",
            "_span": (T0 + 50 * i, T0 + 50 * i + 20),
        })
    return out


def detector_rows():
    out = []
    for d in range(NDET):
        out.append({"instrument": INSTR, "id": d, "full_name": f"det{d:02d}", "name_in_raft": f"d{d % 9}",
                    "raft": None if d % 8 == 5 else f"R{(d * 3) % 5}", "purpose": None if d % 7 == 3 else ("SCIENCE" if d % 3 else "GUIDER")})
    return out


def patch_rows():
    out = []
    for t in TRACTS:
        for k in range(PATCH_N * PATCH_N):
            x, y = k % PATCH_N, k // PATCH_N
            out.append({"skymap": SKYMAP, "tract": t, "id": k, "cell_x": x, "cell_y": y,
                        "_box": _box(10.0 + 0.45 * t + 0.15 * x, 5.0 + 0.15 * y, 0.15, 0.15)})
    return out


def tract_rows():
    return [{"skymap": SKYMAP, "id": t, "_box": _box(10.0 + 0.45 * t, 5.0, 0.45, 0.45)} for t in TRACTS]


def dataset_plan():
    """(dataset type, run, data id) triples: `flat` over detector in two runs (overlapping detectors), `calexp` over
    visit+detector in one run."""
    out = []
    for d in range(NDET):
        if d % 3 != 2:
            out.append(("flat", "r1", {"instrument": INSTR, "detector": d}))
        if d % 2 == 0:
            out.append(("flat", "r2", {"instrument": INSTR, "detector": d}))
    for v in range(1, NVISIT + 1):
        for d in range(0, 6):
            if (v + d) % 4 != 0:
                out.append(("calexp", "r1", {"instrument": INSTR, "visit": v, "detector": d}))
    return out


def _poly(corners):
    from lsst.sphgeom import ConvexPolygon, LonLat, UnitVector3d
    return ConvexPolygon([UnitVector3d(LonLat.fromDegrees(ra, dec)) for ra, dec in corners])


def _span(p):
    import astropy.time
    from lsst.daf.butler import Timespan
    return Timespan(astropy.time.Time(p[0], format="unix_tai", scale="tai"), astropy.time.Time(p[1], format="unix_tai", scale="tai"))


def build_repo(root: str):
    """Populate the repository (called once per worker)."""
    root, butler = fixture.make_repo(root)
    reg = butler.registry
    reg.insertDimensionData("instrument", {"name": INSTR, "detector_max": 100, "visit_max": 10000, "exposure_max": 10000,
                                           "class_name": "none", "visit_system": 0})
    reg.insertDimensionData("detector", *detector_rows())
    for pf, band in FILTERS:
        reg.insertDimensionData("physical_filter", {"instrument": INSTR, "name": pf, "band": band})
    for i, d in enumerate(DAYS):
        reg.insertDimensionData("day_obs", {"instrument": INSTR, "id": d, "timespan": _span((T0 + 86400 * i - 40000, T0 + 86400 * i + 40000))})
    vis = []
    for r in visit_rows():
        r = dict(r)
        r["region"] = _poly(r.pop("_box"))
        r["timespan"] = _span(r.pop("_span"))
        vis.append(r)
    reg.insertDimensionData("visit", *vis)
    groups = sorted({r["group"] for r in exposure_rows()})
    reg.insertDimensionData("group", *[{"instrument": INSTR, "name": g} for g in groups])
    exps = []
    for r in exposure_rows():
        r = dict(r)
        r["timespan"] = _span(r.pop("_span"))
        exps.append(r)
    reg.insertDimensionData("exposure", *exps)
    reg.insertDimensionData("skymap", {"name": SKYMAP, "hash": b"\x01" * 8, "tract_max": 10, "patch_nx_max": PATCH_N, "patch_ny_max": PATCH_N})
    tr = []
    for r in tract_rows():
        r = dict(r)
        r["region"] = _poly(r.pop("_box"))
        tr.append(r)
    reg.insertDimensionData("tract", *tr)
    pa = []
    for r in patch_rows():
        r = dict(r)
        r["region"] = _poly(r.pop("_box"))
        pa.append(r)
    reg.insertDimensionData("patch", *pa)
    fixture.add_dataset_type(butler, "flat", ("instrument", "detector"))
    fixture.add_dataset_type(butler, "calexp", ("instrument", "visit", "detector"))
    reg.registerRun("r1")
    reg.registerRun("r2")
    from lsst.daf.butler import DatasetRef
    byrun: dict = {}
    for dt, run, did in dataset_plan():
        byrun.setdefault((dt, run), []).append(did)
    for (dt, run), dids in byrun.items():
        dtype = reg.getDatasetType(dt)
        reg.insertDatasets(dtype, dids, run=run)
    return butler


def overlap_truth():
    """Ground truth computed with sphgeom directly from the fixture regions: which (visit, tract, patch) triples overlap."""
    vs = {r["id"]: _poly(r["_box"]) for r in visit_rows()}
    ps = {(r["tract"], r["id"]): _poly(r["_box"]) for r in patch_rows()}
    out = []
    for v, rv in vs.items():
        for (t, p), rp in ps.items():
            if rv.overlaps(rp) is not False:
                out.append([v, t, p])
    return sorted(out)


# ------------------------------------------------------------------------------------------------------------
# instrumentation
# ------------------------------------------------------------------------------------------------------------

class Recorder:
    """Wraps Postprocessing.apply and DirectQueryDriver.__init__ (from outside the package)."""

    def __init__(self):
        self.page_size = None
        self.factor = None
        self.calls = []      # per apply call: {"limit_before", "n_in", "n_out"}
        self.idcols = None   # when set: also record the identity of every raw input row
        self.installed = {"driver_init": False, "apply": False}

    def install(self):
        from lsst.daf.butler.direct_query_driver import _driver as drv
        rec = self
        try:
            orig_init = drv.DirectQueryDriver.__init__

            def init(self_, *a, **kw):
                if rec.page_size is not None:
                    kw["raw_page_size"] = rec.page_size
                if rec.factor is not None:
                    kw["postprocessing_filter_factor"] = rec.factor
                orig_init(self_, *a, **kw)

            drv.DirectQueryDriver.__init__ = init
            self.installed["driver_init"] = True
        except Exception:  # noqa: BLE001
            pass
        try:
            from lsst.daf.butler.direct_query_driver._postprocessing import Postprocessing
            orig_apply = Postprocessing.apply

            def apply(self_, rows):
                rows = list(rows)
                entry = {"limit_before": getattr(self_, "_limit", "?"), "n_in": len(rows), "n_out": 0, "pp": bool(self_)}
                if rec.idcols:
                    try:
                        entry["raw"] = [[r._mapping[c] for c in rec.idcols] for r in rows]
                    except Exception:  # noqa: BLE001
                        entry["raw"] = None
                rec.calls.append(entry)
                for r in orig_apply(self_, rows):
                    entry["n_out"] += 1
                    yield r

            Postprocessing.apply = apply
            self.installed["apply"] = True
        except Exception:  # noqa: BLE001
            pass

    def take(self):
        c, self.calls = self.calls, []
        return c


REC = Recorder()


# ------------------------------------------------------------------------------------------------------------
# query execution
# ------------------------------------------------------------------------------------------------------------

def _err(e):
    return {"err": fixture.err_class(e), "msg": str(e)[:200]}


def _ident(obj, spec):
    """Identity of one result row as a list of ints/strings."""
    kind = spec["result"]
    if kind == "data_ids":
        return [obj[c] for c in spec["idcols"]]
    if kind == "records":
        did = obj.dataId
        return [did[c] for c in spec["idcols"]]
    if kind == "datasets":
        return [obj.dataId[c] for c in spec["idcols"]] + [obj.run]
    raise ValueError(kind)


def _ctx_result(q, spec, order=True):
    args = []
    if spec.get("data_id") is not None:
        args.append(spec["data_id"])
    if spec.get("where"):
        args.append(spec["where"])
    kw = spec.get("kwargs") or {}
    kind = spec["result"]
    if kind == "data_ids":
        r = q.where(*args, **kw).data_ids(spec["dims"])
    elif kind == "records":
        r = q.where(*args, **kw).dimension_records(spec["element"])
    elif kind == "datasets":
        r = q.datasets(spec["dataset_type"], collections=spec["collections"], find_first=spec.get("find_first", True)).where(*args, **kw)
    else:
        raise ValueError(kind)
    if order and spec.get("order_by"):
        r = r.order_by(*spec["order_by"])
    return r


def _observe(r, spec, rec_ids):
    """iteration + counts + anys of one result object; every part maps exceptions to the error enum"""
    out = {}
    REC.take()
    REC.idcols = rec_ids
    try:
        out["ids"] = [_ident(x, spec) for x in r]
    except Exception as e:  # noqa: BLE001
        out["ids"] = _err(e)
    REC.idcols = None
    out["trace"] = REC.take()
    cs = []
    for exact, discard in ((True, True), (True, False), (False, False)):
        try:
            cs.append(r.count(exact=exact, discard=discard))
        except Exception as e:  # noqa: BLE001
            cs.append(_err(e))
    out["counts"] = cs
    an = []
    for execute, exact in ((True, True), (True, False), (False, False), (False, True)):
        try:
            an.append(bool(r.any(execute=execute, exact=exact)))
        except Exception as e:  # noqa: BLE001
            an.append(_err(e))
    out["anys"] = an
    REC.take()
    return out


def case_ctx(butler, case):
    """butler.query() context API: unlimited observation, then one observation per limit."""
    spec = case["q"]
    REC.page_size, REC.factor = case.get("page"), case.get("factor")
    out = {"limits": {}}
    try:
        with butler.query() as q:
            base = _ctx_result(q, spec)
            out["full"] = _observe(base, spec, spec.get("rawcols"))
            for lim in case.get("limits", []):
                try:
                    limited = base.limit(lim)
                except Exception as e:  # noqa: BLE001  (e.g. a negative limit is refused when the results object is sliced)
                    err = _err(e)
                    out["limits"][str(lim)] = {"ids": err, "trace": [], "counts": [err, err, err], "anys": [err, err, err, err], "refused_at": "limit"}
                    continue
                out["limits"][str(lim)] = _observe(limited, spec, spec.get("rawcols"))
            if case.get("unordered"):
                out["unordered"] = _observe(_ctx_result(q, spec, order=False), spec, None)
    except Exception as e:  # noqa: BLE001
        out["error"] = _err(e)
    finally:
        REC.page_size = REC.factor = None
    return out


class _WarnCatcher:
    def __init__(self):
        import logging

        class H(logging.Handler):
            def __init__(s):
                super().__init__(level=logging.WARNING)
                s.hits = 0

            def emit(s, record):
                if "requested limit" in record.getMessage():
                    s.hits += 1

        self.h = H()
        self.logger = logging.getLogger("lsst.daf.butler")

    def __enter__(self):
        import logging
        logging.disable(logging.NOTSET)
        self.old_level = self.logger.level
        self.logger.setLevel(logging.WARNING)
        self.logger.addHandler(self.h)
        return self.h

    def __exit__(self, *a):
        import logging
        self.logger.removeHandler(self.h)
        self.logger.setLevel(self.old_level)
        logging.disable(logging.WARNING)


def case_butler(butler, case):
    """Butler.query_data_ids / query_datasets / query_dimension_records with limit (incl. negative) and explain."""
    spec = case["q"]
    REC.page_size, REC.factor = case.get("page"), case.get("factor")
    out = {"limits": {}}
    kw = dict(spec.get("kwargs") or {})
    common = dict(data_id=spec.get("data_id"), where=spec.get("where") or "", order_by=spec.get("order_by") or None)
    try:
        for lim, explain in case["limits"]:
            with _WarnCatcher() as h:
                try:
                    if spec["result"] == "data_ids":
                        got = butler.query_data_ids(spec["dims"], limit=lim, explain=explain, **common, **kw)
                    elif spec["result"] == "records":
                        got = butler.query_dimension_records(spec["element"], limit=lim, explain=explain, **common, **kw)
                    else:
                        got = butler.query_datasets(spec["dataset_type"], collections=spec["collections"],
                                                    find_first=spec.get("find_first", True), limit=lim, explain=explain, **common, **kw)
                    ids = [_ident(x, spec) for x in got]
                except Exception as e:  # noqa: BLE001
                    ids = _err(e)
            out["limits"][f"{lim}:{int(explain)}"] = {"ids": ids, "warned": h.hits > 0}
            REC.take()
    finally:
        REC.page_size = REC.factor = None
    return out


def _legacy_result(butler, spec, order=True):
    reg = butler.registry
    kw = dict(spec.get("kwargs") or {})
    if spec["result"] == "data_ids":
        r = reg.queryDataIds(spec["dims"], dataId=spec.get("data_id"), where=spec.get("where") or "", **kw)
    elif spec["result"] == "records":
        r = reg.queryDimensionRecords(spec["element"], dataId=spec.get("data_id"), where=spec.get("where") or "", **kw)
    else:
        raise ValueError(spec["result"])
    if order and spec.get("order_by"):
        r = r.order_by(*spec["order_by"])
    return r


def _observe_legacy(mk, spec):
    out = {}
    try:
        out["ids"] = [_ident(x, spec) for x in mk()]
    except Exception as e:  # noqa: BLE001
        out["ids"] = _err(e)
    try:
        out["counts"] = [mk().count(exact=True, discard=True)]
    except Exception as e:  # noqa: BLE001
        out["counts"] = [_err(e)]
    try:
        out["anys"] = [bool(mk().any(execute=True, exact=True))]
    except Exception as e:  # noqa: BLE001
        out["anys"] = [_err(e)]
    return out


def case_legacy(butler, case):
    """registry.queryDataIds / queryDimensionRecords (.order_by().limit() mutate in place: fresh object every time)."""
    spec = case["q"]
    out = {"limits": {}}
    try:
        out["full"] = _observe_legacy(lambda: _legacy_result(butler, spec), spec)
        for lim in case.get("limits", []):
            out["limits"][str(lim)] = _observe_legacy(lambda: _legacy_result(butler, spec).limit(lim), spec)
    except Exception as e:  # noqa: BLE001
        out["error"] = _err(e)
    return out


def case_spell(butler, case):
    """The same constraint as data ID + kwargs / kwargs only / where string / data ID only, through three interfaces."""
    spec = case["q"]
    d, kwd, merged, wstr = case["d"], case["kw"], case["merged"], case["where"]
    variants = [
        dict(spec, data_id=d, kwargs=kwd, where=""),
        dict(spec, data_id=None, kwargs=merged, where=""),
        dict(spec, data_id=None, kwargs={}, where=wstr),
        dict(spec, data_id=merged, kwargs={}, where=""),
    ]
    REC.page_size = case.get("page")
    out = {"ctx": [], "butler": [], "legacy": []}
    try:
        for v in variants:
            try:
                with butler.query() as q:
                    out["ctx"].append(sorted(_ident(x, v) for x in _ctx_result(q, v)))
            except Exception as e:  # noqa: BLE001
                out["ctx"].append(_err(e))
            sub = case_butler(butler, {"q": v, "limits": [[None, False]], "page": case.get("page")})
            ids = sub["limits"]["None:0"]["ids"]
            out["butler"].append(sorted(ids) if isinstance(ids, list) else ids)
            if spec["result"] != "datasets":
                try:
                    out["legacy"].append(sorted({tuple(_ident(x, v)) for x in _legacy_result(butler, v)}))
                except Exception as e:  # noqa: BLE001
                    out["legacy"].append(_err(e))
    finally:
        REC.page_size = None
    return out


def run_cases(payload):
    """Worker entry point: build the repository once, run every case, remove the repository."""
    t0 = time.time()
    root = fixture.new_root("c16")
    out = {"results": [], "installed": None}
    try:
        butler = build_repo(root)
        REC.install()
        out["installed"] = REC.installed
        out["build_s"] = round(time.time() - t0, 2)
        for case in payload["cases"]:
            fn = {"ctx": case_ctx, "butler": case_butler, "legacy": case_legacy, "spell": case_spell}[case["kind"]]
            try:
                out["results"].append(fn(butler, case))
            except Exception as e:  # noqa: BLE001
                out["results"].append({"error": _err(e)})
    finally:
        fixture.cleanup(root)
    out["wall_s"] = round(time.time() - t0, 2)
    return out
