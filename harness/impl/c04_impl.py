"""C04 implementation driver: certify / decertify / removeDatasets histories on a REAL SQLite registry.

Runs inside a worker subprocess (common.run_worker).  One scratch repository per call, many histories per
repository; every history gets its own collections and its own datasets, so histories do not interact.

Numbering shared with the Coq model (coq/Model/Calib.v) and the oracle (harness/props/c04.py):
  collections   0,1 = CALIBRATION   2 = RUN (holds the k=0 datasets)   3 = TAGGED   4 = RUN (k=1 datasets)
                5 = CHAINED [1, 0]   6 = CHAINED [0, 2]   8 = CHAINED [5, 4, 0]   (searched only, never written to)
                7   = never registered
  dataset types 0,1 = calibration {instrument, detector}   2 = NOT calibration   7 = never registered
  data ids      detector 0,1,2
  dataset id    ty*6 + did*2 + k   (k = 0/1: two datasets of equal type + data ID in two runs), ty in 0..2
"""
from __future__ import annotations

import time

from harness.impl import fixture

TYPE_NAMES = {0: "c04bias", 1: "c04flat", 2: "c04raw", 7: "c04nope"}
NDID = 3


def _coll_name(h, c):
    return {0: f"h{h}/calibA", 1: f"h{h}/calibB", 2: f"h{h}/run0", 3: f"h{h}/tag", 4: f"h{h}/run1",
            5: f"h{h}/chainBA", 6: f"h{h}/chainArun0", 8: f"h{h}/chainNested"}.get(c, f"h{h}/missing{c}")


CHAINS = {5: [1, 0], 6: [0, 2], 8: [5, 4, 0]}


def _ts(Timespan, p):
    return Timespan(None, None, _nsec=(int(p[0]), int(p[1])))


def _setup_repo():
    root, butler = fixture.make_repo()
    fixture.add_instrument(butler, "Cam", detectors=tuple(range(NDID)))
    types = {}
    for t, nm in TYPE_NAMES.items():
        if t == 7:
            continue
        types[t] = fixture.add_dataset_type(butler, nm, is_calibration=(t != 2))
    return root, butler, types


def _setup_history(butler, types, h):
    from lsst.daf.butler import CollectionType
    reg = butler.registry
    reg.registerCollection(_coll_name(h, 0), CollectionType.CALIBRATION)
    reg.registerCollection(_coll_name(h, 1), CollectionType.CALIBRATION)
    reg.registerCollection(_coll_name(h, 2), CollectionType.RUN)
    reg.registerCollection(_coll_name(h, 3), CollectionType.TAGGED)
    reg.registerCollection(_coll_name(h, 4), CollectionType.RUN)
    for c, kids in CHAINS.items():
        reg.registerCollection(_coll_name(h, c), CollectionType.CHAINED)
        reg.setCollectionChain(_coll_name(h, c), [_coll_name(h, k) for k in kids])
    refs = {}
    for t, dt in types.items():
        for k in (0, 1):
            rs = reg.insertDatasets(dt, [{"instrument": "Cam", "detector": d} for d in range(NDID)],
                                    run=_coll_name(h, 2 if k == 0 else 4))
            for r in rs:
                refs[t * 6 + r.dataId["detector"] * 2 + k] = r
    return refs


def _raw_rows(butler, coll_ids, type_ids, ds_num):
    """Direct dump of every dataset_calibs_* table: [coll, ty, did, ds, begin, end] for this history."""
    import sqlalchemy as sa
    db = butler._registry._db
    out = []
    with db._engine.connect() as conn:
        names = [r[0] for r in conn.execute(sa.text("SELECT name FROM sqlite_master WHERE type='table' AND name LIKE 'dataset_calibs_%'"))]
        for nm in names:
            cols = [r[1] for r in conn.execute(sa.text(f'PRAGMA table_info("{nm}")'))]
            collcol = "collection_id" if "collection_id" in cols else "collection_name"
            for r in conn.execute(sa.text(f'SELECT {collcol}, dataset_type_id, detector, dataset_id, timespan_begin, timespan_end FROM "{nm}"')):
                c = coll_ids.get(r[0])
                if c is None:
                    continue
                import uuid
                dsid = r[3]
                if not isinstance(dsid, uuid.UUID):
                    try:
                        dsid = uuid.UUID(bytes=dsid) if isinstance(dsid, (bytes, memoryview)) else uuid.UUID(str(dsid))
                    except Exception:  # noqa: BLE001
                        pass
                out.append([c, type_ids.get(r[1], -1), int(r[2]), ds_num.get(dsid, -1), int(r[4]), int(r[5])])
    out.sort()
    return out


def _find(butler, tyname, did, colls, ts, ds_num):
    from lsst.daf.butler import CalibrationLookupError
    try:
        r = butler.find_dataset(tyname, {"instrument": "Cam", "detector": did}, collections=colls, timespan=ts)
    except CalibrationLookupError:
        return -2
    except Exception as e:  # noqa: BLE001
        return "E:" + fixture.err_class(e)
    if r is None:
        return -1
    return ds_num.get(r.id, -3)


def run_histories(payload):
    """payload: {histories: [{ops: [...], probes: [[b,e],...], keys: [[coll, ty, did],...], paths: [[c,...],...]}],
                 query_datasets: bool}
    returns   : {results: [[step observation, ...], ...]}  with one observation per op:
        {out, rows, assoc, find: [[coll, ty, did, probe index, result]], path: [[path index, ty, did, probe index, result]], qd: [...]}
    """
    from lsst.daf.butler import CollectionType, Timespan

    root, butler, types = _setup_repo()
    reg = butler.registry
    try:
        type_ids = {}
        for t, dt in types.items():
            type_ids[butler._registry._managers.datasets._find_storage(dt.name).dataset_type_id] = t
        results = []
        for h, hist in enumerate(payload["histories"]):
            t0 = time.time()
            refs = _setup_history(butler, types, h)
            ds_num = {r.id: n for n, r in refs.items()}
            coll_ids = {}
            for c in (0, 1, 2, 3, 4):
                rec = butler._registry._managers.collections.find(_coll_name(h, c))
                coll_ids[rec.key] = c
            probes = [_ts(Timespan, p) for p in hist["probes"]]
            steps = []
            for si, op in enumerate(hist["ops"]):
                obs = {}
                try:
                    if op["op"] == "certify":
                        reg.certify(_coll_name(h, op["coll"]), [refs[d] for d in op["refs"]], _ts(Timespan, op["ts"]))
                    elif op["op"] == "decertify":
                        sel = op.get("sel")
                        reg.decertify(_coll_name(h, op["coll"]), TYPE_NAMES[op["ty"]], _ts(Timespan, op["ts"]),
                                      dataIds=None if sel is None else [{"instrument": "Cam", "detector": d} for d in sel])
                    elif op["op"] == "remove":
                        reg.removeDatasets([refs[op["ds"]]])
                    else:
                        raise ValueError(op["op"])
                    obs["out"] = "Ok"
                except Exception as e:  # noqa: BLE001
                    obs["out"] = fixture.err_class(e)
                    obs["msg"] = str(e)[:160]
                obs["rows"] = _raw_rows(butler, coll_ids, type_ids, ds_num)
                assoc = []
                for t in (0, 1):
                    try:
                        for a in reg.queryDatasetAssociations(TYPE_NAMES[t], collections=[_coll_name(h, 0), _coll_name(h, 1)],
                                                              collectionTypes={CollectionType.CALIBRATION}):
                            c = 0 if a.collection == _coll_name(h, 0) else 1
                            assoc.append([c, t, int(a.ref.dataId["detector"]), ds_num.get(a.ref.id, -1),
                                          int(a.timespan.nsec[0]), int(a.timespan.nsec[1])])
                    except Exception as e:  # noqa: BLE001
                        assoc.append(["E:" + fixture.err_class(e), t])
                assoc.sort(key=lambda r: [str(x) for x in r] if isinstance(r[0], str) else r)
                obs["assoc"] = assoc
                find = []
                for (c, t, d) in hist["keys"]:
                    for pi, p in enumerate(probes):
                        find.append([c, t, d, pi, _find(butler, TYPE_NAMES[t], d, [_coll_name(h, c)], p, ds_num)])
                obs["find"] = find
                pth = []
                for qi, path in enumerate(hist.get("paths", [])):
                    names = [_coll_name(h, c) for c in path]
                    for (t, d) in sorted({(t, d) for (_, t, d) in hist["keys"]}):
                        for pi in hist.get("path_probes", range(len(probes))):
                            pth.append([qi, t, d, pi, _find(butler, TYPE_NAMES[t], d, names, probes[pi], ds_num)])
                obs["path"] = pth
                xp = []
                # paths with CHAINED / RUN collections: after every third op and after the last one (wall time of the quick tier)
                for xi, path in enumerate(hist.get("xpaths", []) if (si % 3 == 2 or si == len(hist["ops"]) - 1) else []):
                    names = [_coll_name(h, c) for c in path]
                    for (t, d) in sorted({(t, d) for (_, t, d) in hist["keys"]}):
                        for pi in hist.get("xpath_probes", []):
                            xp.append([xi, t, d, pi, _find(butler, TYPE_NAMES[t], d, names, probes[pi], ds_num)])
                obs["xpath"] = xp
                if hist.get("query_datasets") or payload.get("query_datasets"):
                    obs["qd"], obs["qdp"], obs["qall"] = _query_datasets(butler, h, hist, probes, ds_num)
                steps.append(obs)
            results.append({"steps": steps, "wall": round(time.time() - t0, 2)})
        return {"results": results}
    finally:
        try:
            butler.close()
        except Exception:  # noqa: BLE001
            pass
        fixture.cleanup(root)


def _query_datasets(butler, h, hist, probes, ds_num):
    """New query system: find-first search of one calibration collection with a temporal constraint
    (`<type>.timespan OVERLAPS :ts`); ambiguity must be reported, not resolved arbitrarily."""
    from lsst.daf.butler import CalibrationLookupError
    def one(names, t, d, p, find_first=True):
        try:
            with butler.query() as q:
                q = q.join_dataset_search(TYPE_NAMES[t], names)
                q = q.where(f"instrument = 'Cam' AND detector = {d} AND {TYPE_NAMES[t]}.timespan OVERLAPS ts", bind={"ts": p})
                refs = list(q.datasets(TYPE_NAMES[t], names, find_first=find_first))
            return sorted(ds_num.get(r.id, -3) for r in refs)
        except CalibrationLookupError:
            return -2
        except Exception as e:  # noqa: BLE001
            return "E:" + fixture.err_class(e) + ":" + str(e)[:80]

    out = []
    for (c, t, d) in hist["keys"]:
        for pi in hist.get("qd_probes", range(len(probes))):
            out.append([c, t, d, pi, one([_coll_name(h, c)], t, d, probes[pi])])
    # the same search over an ordered path of calibration collections (a CHAINED collection or a list)
    outp = []
    for qi, path in enumerate(hist.get("qd_paths", [])):
        names = [_coll_name(h, c) for c in path]
        for (t, d) in sorted({(t, d) for (_, t, d) in hist["keys"]}):
            for pi in hist.get("qd_probes", range(len(probes)))[:4]:
                outp.append([qi, t, d, pi, one(names, t, d, probes[pi])])
    # without find-first: one result per overlapping row of the collection (first key only)
    outa = []
    for (c, t, d) in hist["keys"][:1]:
        for pi in hist.get("qd_probes", range(len(probes)))[:4]:
            outa.append([c, t, d, pi, one([_coll_name(h, c)], t, d, probes[pi], find_first=False)])
    return out, outp, outa
