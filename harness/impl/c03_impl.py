"""C03 implementation driver: runs chain-edit histories and find-first probes on the REAL Butler.

`run_cases(payload)` is called through common.run_worker (fresh interpreter, outer watchdog).  Every case
runs in a forked child that streams one JSON line per step to the parent; the parent applies a per-step
watchdog (a cyclic chain makes the recursive CTE of a flattening query loop forever), so a hang is reported
with the step at which it happened and everything observed before it.

Names: collection i -> "c<i>"; dataset types 0 dt0, 1 dt1 {instrument, detector}, 2 dtS {skymap}, 3 dtC {instrument,
detector} with isCalibration=True, 4 dtB {instrument, skymap}; data ID d = 64 * (skymap index + 1 or 0) + 16 * instrument
+ detector, restricted to the dimensions of the dataset type; dataset k -> the UUID the implementation returned for the
k-th successful put.
"""
from __future__ import annotations

import json
import os
import select
import signal
import time

from harness.impl import fixture as fx

NDET = 4
NINST = 2


def cname(i):
    return f"c{i}"


def cnum(name):
    return int(name[1:])


TYN = {0: "dt0", 1: "dt1", 2: "dtS", 3: "dtC", 4: "dtB"}
TYDIMS = {0: ("instrument", "detector"), 1: ("instrument", "detector"), 2: ("skymap",), 3: ("instrument", "detector"),
          4: ("instrument", "skymap")}
GOVDIMS = {(0,): ("instrument", "detector"), (1,): ("skymap",), (0, 1): ("instrument", "skymap")}


def tyname(ty):
    return TYN.get(ty, f"dt{ty}")


def did_of(ty, d):
    dims = TYDIMS.get(ty, ("instrument", "detector"))
    out = {}
    if "instrument" in dims:
        out["instrument"] = f"Cam{(d // 16) % 4}"
    if "detector" in dims:
        out["detector"] = d % 16
    if "skymap" in dims:
        out["skymap"] = f"S{d // 64 - 1}"
    return out


def d_of(ty, data_id):
    dims = TYDIMS.get(ty, ("instrument", "detector"))
    d = 0
    if "instrument" in dims:
        d += 16 * int(str(data_id["instrument"])[3:])
    if "detector" in dims:
        d += int(data_id["detector"])
    if "skymap" in dims:
        d += 64 * (int(str(data_id["skymap"])[1:]) + 1)
    return d


def _cyclic(chains: dict) -> bool:
    """chains: name -> children names; iterative colouring DFS (never recursive on the data)."""
    color = {}
    for root in chains:
        if color.get(root):
            continue
        stack = [(root, iter(chains.get(root, ())))]
        color[root] = 1
        while stack:
            node, it = stack[-1]
            nxt = next(it, None)
            if nxt is None:
                color[node] = 2
                stack.pop()
                continue
            if nxt in chains:
                if color.get(nxt) == 1:
                    return True
                if not color.get(nxt):
                    color[nxt] = 1
                    stack.append((nxt, iter(chains[nxt])))
    return False


class Driver:
    def __init__(self):
        from lsst.daf.butler import CollectionType

        self.CT = CollectionType
        self.root, self.butler = fx.make_repo()
        for i in range(NINST):
            fx.add_instrument(self.butler, f"Cam{i}", detectors=range(NDET), filters=())
        # a second governor (skymap): dataset types over {skymap} only and over {instrument, skymap}, so that collection
        # summaries carry skymap values and find-first queries can be constrained by a governor the searched dataset
        # type does not have (dt0, dt1, dtC) or has (dtS, dtB)
        for g in range(2):
            self.butler.registry.insertDimensionData("skymap", {"name": f"S{g}", "hash": bytes([g]) * 4, "tract_max": 1,
                                                                "patch_nx_max": 1, "patch_ny_max": 1})
        for ty, nm in TYN.items():
            fx.add_dataset_type(self.butler, nm, dimensions=TYDIMS[ty], is_calibration=(ty == 3))
        self.reg = self.butler.registry
        self.sql = self.butler._registry
        self.refs = {}
        self.id2k = {}

    def close(self):
        fx.cleanup(self.root)

    # -- one op -> outcome string
    def do(self, op):
        try:
            self._do(op)
            return "ok"
        except Exception as e:  # noqa: BLE001
            return fx.err_class(e)

    def _do(self, op):
        kind = op[0]
        c = self.butler.collections
        if kind == "reg":
            self.reg.registerCollection(cname(op[1]), {"run": self.CT.RUN, "tagged": self.CT.TAGGED, "chained": self.CT.CHAINED,
                                                       "calib": self.CT.CALIBRATION}[op[2]])
        elif kind == "rmcoll":
            self.reg.removeCollection(cname(op[1]))
        elif kind == "set":
            _, coll, ty, d, k = op
            if k in self.refs:
                self.reg.associate(cname(coll), [self.refs[k]])
            else:
                ref = self.butler.put({"k": k}, tyname(ty), did_of(ty, d), run=cname(coll))
                self.refs[k] = ref
                self.id2k[str(ref.id)] = k
        elif kind == "sky":
            # (older replays) a dataset of the {skymap}-only type = ["set", coll, 2, 64 * (g + 1), fresh k]
            _, coll, g = op
            self.butler.put({"k": -1}, "dtS", {"skymap": f"S{g}"}, run=cname(coll))
        elif kind == "cert":
            from lsst.daf.butler import Timespan
            _, coll, ty, d, k = op
            self.reg.certify(cname(coll), [self.refs[k]], Timespan(None, None))
        elif kind == "type":
            _, ty, gs, cal = op
            fx.add_dataset_type(self.butler, tyname(ty), dimensions=GOVDIMS[tuple(gs)], is_calibration=bool(cal))
        elif kind == "editflat":
            _, p, cs = op
            self.reg.setCollectionChain(cname(p), [cname(x) for x in cs], flatten=True)
        elif kind == "edit":
            _, ek, p, cs, via = op
            names = [cname(x) for x in cs]
            if ek == "redefine":
                if via == "registry":
                    self.reg.setCollectionChain(cname(p), names)
                else:
                    c.redefine_chain(cname(p), names)
            elif ek == "prepend":
                c.prepend_chain(cname(p), names)
            elif ek == "extend":
                c.extend_chain(cname(p), names)
            elif ek == "remove":
                c.remove_from_chain(cname(p), names)
            else:
                raise ValueError(ek)
        else:
            raise ValueError(kind)

    # -- observations
    def all_chains(self):
        out = {}
        for n in self.reg.queryCollections(..., collectionTypes={self.CT.CHAINED}):
            out[n] = list(self.reg.getCollectionChain(n))
        return out

    def all_colls(self):
        return {n: self.reg.getCollectionType(n).name for n in self.reg.queryCollections(...)}

    def raw_rows(self):
        import sqlalchemy as sa

        m = self.sql._managers.collections
        t, c = m._tables.collection_chain, m._tables.collection
        key = m._collectionIdName
        with self.sql._db.query(sa.select(c.c[key], c.c.name)) as r:
            names = {row[0]: row[1] for row in r}
        with self.sql._db.query(sa.select(t.c.parent, t.c.position, t.c.child)) as r:
            rows = [(names[row[0]], int(row[1]), names[row[2]]) for row in r]
        return sorted(rows)

    def ks(self, refs):
        return sorted(self.id2k.get(str(r.id), -1) for r in refs)

    def probe(self, p):
        """Returns the observation: {"l": [...]} or {"e": class}; for find probes a dict api -> d -> obs."""
        t = p["t"]
        try:
            if t == "chain":
                return {"l": [cnum(x) for x in self.reg.getCollectionChain(cname(p["p"]))]}
            if t == "flat":
                kw = {"include_chains": True} if p.get("incl") else {}
                return {"l": [cnum(x) for x in self.butler.collections.query([cname(x) for x in p["ns"]], flatten_chains=True, **kw)]}
        except Exception as e:  # noqa: BLE001
            return {"e": fx.err_class(e)}
        assert t == "find"
        path = [cname(x) for x in p["ns"]]
        ty = p["ty"]
        dt = tyname(ty)
        out = {}
        # fg / ig: constrain the query-based searches through the WHERE clause by skymap / instrument (a governor the
        # dataset type has, or one it does not have; every value named exists)
        terms = ([] if p.get("fg") is None else [f"skymap = 'S{p['fg']}'"]) + \
                ([] if p.get("ig") is None else [f"instrument = 'Cam{p['ig']}'"])
        fg = {"where": " AND ".join(terms)} if terms else {}
        for api in p["apis"]:
            per_d = {}
            if p["gc"] or api in (0, 1, 4):
                for d in p["ds"]:
                    per_d[str(d)] = self._find_one(api, dt, did_of(ty, d), path, fg)
            else:
                # one unconstrained query, split by data ID
                try:
                    if api == 2:
                        refs = self.butler.query_datasets(dt, collections=path, find_first=True, explain=False, limit=None, **fg)
                    else:
                        refs = list(self.reg.queryDatasets(dt, collections=path, findFirst=True, **fg))
                    for d in p["ds"]:
                        per_d[str(d)] = {"l": self.ks([r for r in refs if d_of(ty, r.dataId) == d])}
                except Exception as e:  # noqa: BLE001
                    for d in p["ds"]:
                        per_d[str(d)] = {"e": fx.err_class(e)}
            out[str(api)] = per_d
        return out

    def _find_one(self, api, dt, data_id, path, fg=None):
        fg = fg or {}
        try:
            if api == 0:
                r = self.butler.find_dataset(dt, data_id, collections=path)
                return {"l": self.ks([r] if r is not None else [])}
            if api == 1:
                r = self.reg.findDataset(dt, data_id, collections=path)
                return {"l": self.ks([r] if r is not None else [])}
            if api == 2:
                return {"l": self.ks(self.butler.query_datasets(dt, collections=path, find_first=True, data_id=data_id,
                                                                explain=False, limit=None, **fg))}
            if api == 3:
                return {"l": self.ks(self.reg.queryDatasets(dt, collections=path, findFirst=True, dataId=data_id, **fg))}
            if api == 4:
                from lsst.daf.butler import DatasetNotFoundError
                try:
                    return {"l": [int(self.butler.get(dt, data_id, collections=path)["k"])]}
                except DatasetNotFoundError:
                    return {"l": []}
        except Exception as e:  # noqa: BLE001
            return {"e": fx.err_class(e)}
        raise ValueError(api)


def _child(case, wfd):
    w = os.fdopen(wfd, "w", buffering=1)
    drv = None
    try:
        drv = Driver()
        w.write(json.dumps({"root": drv.root}) + "\n")
        for i, op in enumerate(case["ops"]):
            w.write(json.dumps({"begin": i}) + "\n")
            out = drv.do(op)
            chains = drv.all_chains()
            cyc = _cyclic(chains)
            rec = {"step": i, "out": out, "chains": {str(cnum(k)): [cnum(x) for x in v] for k, v in chains.items()},
                   "colls": {str(cnum(k)): v for k, v in drv.all_colls().items()},
                   "rows": [[cnum(a), b, cnum(c)] for a, b, c in drv.raw_rows()], "cyclic": cyc, "probes": []}
            if not cyc:
                for p in case["probes"][i]:
                    w.write(json.dumps({"probing": i, "probe": p}) + "\n")
                    rec["probes"].append(drv.probe(p))
            w.write(json.dumps(rec) + "\n")
            if cyc:
                break
        w.write(json.dumps({"end": True}) + "\n")
    except BaseException as e:  # noqa: BLE001
        import traceback
        w.write(json.dumps({"crash": f"{type(e).__name__}: {e}", "tb": traceback.format_exc()[-1500:]}) + "\n")
    finally:
        try:
            if drv is not None:
                drv.close()
        finally:
            w.flush()
            os._exit(0)


def run_case(case, step_timeout=30.0):
    """-> {"steps": [...], "status": "ok" | "hang" | "crash", "at": step index, "detail": ...}"""
    import lsst.daf.butler  # noqa: F401  (import before forking: paid once per worker)

    rfd, wfd = os.pipe()
    pid = os.fork()
    if pid == 0:
        os.close(rfd)
        _child(case, wfd)
    os.close(wfd)
    steps, status, detail, last, root = [], "ok", None, {}, None
    buf = b""
    deadline = time.time() + step_timeout + 20  # repository creation
    done = False
    try:
        while not done:
            left = deadline - time.time()
            if left <= 0:
                status, detail = "hang", last
                break
            r, _, _ = select.select([rfd], [], [], left)
            if not r:
                continue
            chunk = os.read(rfd, 65536)
            if not chunk:
                if status == "ok" and not done:
                    status, detail = "crash", "child exited without end marker"
                break
            buf += chunk
            while b"\n" in buf:
                line, buf = buf.split(b"\n", 1)
                msg = json.loads(line)
                deadline = time.time() + step_timeout
                if "step" in msg:
                    steps.append(msg)
                elif "root" in msg:
                    root = msg["root"]
                elif "end" in msg:
                    done = True
                elif "crash" in msg:
                    status, detail = "crash", msg
                    done = True
                else:
                    last = msg
    finally:
        os.close(rfd)
        if status == "hang":
            try:
                os.kill(pid, signal.SIGKILL)
            except OSError:
                pass
        try:
            os.waitpid(pid, 0)
        except OSError:
            pass
    if status != "ok" and root and os.path.basename(root).startswith("verif-"):
        fx.cleanup(root)  # the child could not clean up
    return {"steps": steps, "status": status, "detail": detail}


def run_cases(payload):
    return [run_case(c, payload.get("step_timeout", 30.0)) for c in payload["cases"]]
