"""Shared fixtures for driving the REAL Butler from /repo's working tree (SQLite registry + file datastore).

`lsst.daf.butler.tests` is not importable in this sandbox, so everything needed is built here.
Every caller must run under a watchdog (see common.run_worker): a violated property can hang.
"""
from __future__ import annotations

import hashlib
import logging
import os
import shutil
import tempfile
import warnings
from pathlib import Path

warnings.filterwarnings("ignore")
logging.disable(logging.WARNING)


def new_root(tag="repo") -> str:
    base = os.environ.get("VERIF_SCRATCH", "/var/tmp")
    Path(base).mkdir(parents=True, exist_ok=True)
    return tempfile.mkdtemp(prefix=f"verif-{tag}-", dir=base)


def make_repo(root: str | None = None, datastore: str = "file", formatter: str = "yaml", extra_config: dict | None = None,
              dimension_universe: int | None = None):
    """Create a repository and return (root, writeable Butler).

    datastore: 'file' | 'memory' | 'chained' (file + in-memory)
    formatter: 'yaml' | 'json' | 'pickle' for StructuredDataDict / StructuredDataList
    """
    from lsst.daf.butler import Butler, Config

    root = root or new_root()
    cfg = Config()
    fmt = {
        "yaml": "lsst.daf.butler.formatters.yaml.YamlFormatter",
        "json": "lsst.daf.butler.formatters.json.JsonFormatter",
        "pickle": "lsst.daf.butler.formatters.pickle.PickleFormatter",
    }[formatter]
    fmts = {"StructuredDataDict": fmt, "StructuredDataList": fmt}
    if datastore == "file":
        cfg["datastore", "cls"] = "lsst.daf.butler.datastores.fileDatastore.FileDatastore"
        cfg["datastore", "formatters"] = fmts
    elif datastore == "memory":
        cfg["datastore", "cls"] = "lsst.daf.butler.datastores.inMemoryDatastore.InMemoryDatastore"
    elif datastore == "chained":
        cfg["datastore", "cls"] = "lsst.daf.butler.datastores.chainedDatastore.ChainedDatastore"
        cfg["datastore", "datastores"] = [
            {"datastore": {"cls": "lsst.daf.butler.datastores.inMemoryDatastore.InMemoryDatastore"}},
            {"datastore": {"cls": "lsst.daf.butler.datastores.fileDatastore.FileDatastore", "root": "<butlerRoot>/ds1",
                           "formatters": fmts}},
        ]
    else:
        raise ValueError(datastore)
    if extra_config:
        for k, v in extra_config.items():
            cfg[k] = v
    dimcfg = None
    if dimension_universe is not None:
        from lsst.daf.butler import DimensionConfig
        from lsst.resources import ResourcePath
        dimcfg = DimensionConfig(ResourcePath(f"resource://lsst.daf.butler/configs/old_dimensions/daf_butler_universe{dimension_universe}.yaml"))
    Butler.makeRepo(root, config=cfg, dimensionConfig=dimcfg)
    butler = Butler.from_config(root, writeable=True)
    return root, butler


def open_repo(root: str, writeable=True, **kw):
    from lsst.daf.butler import Butler
    return Butler.from_config(root, writeable=writeable, **kw)


def add_instrument(butler, name="Cam", detectors=(0, 1, 2, 3), filters=(("g", "g"), ("r", "r"))):
    """Minimal dimension records: one instrument, detectors, physical filters (name, band)."""
    reg = butler.registry
    reg.insertDimensionData("instrument", {"name": name, "detector_max": 100, "visit_max": 10000, "exposure_max": 10000,
                                           "class_name": "none", "visit_system": 0})
    for d in detectors:
        reg.insertDimensionData("detector", {"instrument": name, "id": d, "full_name": f"det{d}", "name_in_raft": f"d{d}",
                                             "raft": "R", "purpose": "SCIENCE"})
    for pf, band in filters:
        reg.insertDimensionData("physical_filter", {"instrument": name, "name": pf, "band": band})


def add_dataset_type(butler, name, dimensions=("instrument", "detector"), storage_class="StructuredDataDict", is_calibration=False):
    from lsst.daf.butler import DatasetType
    dt = DatasetType(name, dimensions=list(dimensions), storageClass=storage_class, universe=butler.dimensions,
                     isCalibration=is_calibration)
    butler.registry.registerDatasetType(dt)
    return dt


def listing(root: str, exclude=("gen3.sqlite3", "butler.yaml")) -> dict:
    """Recursive listing {relative path: sha1 of content} of a directory (symlinks noted as such)."""
    out = {}
    rootp = Path(root)
    if not rootp.exists():
        return out
    for dp, dn, fn in os.walk(root):
        for f in fn:
            p = Path(dp) / f
            rel = str(p.relative_to(rootp))
            if rel in exclude or rel.endswith("-journal") or rel.endswith("-wal") or rel.endswith("-shm"):
                continue
            if p.is_symlink():
                out[rel] = "symlink:" + os.readlink(p)
            else:
                try:
                    out[rel] = hashlib.sha1(p.read_bytes()).hexdigest()[:12]
                except OSError as e:
                    out[rel] = f"unreadable:{e.errno}"
    return out


def err_class(e: BaseException) -> str:
    """Map an exception to the small error enum shared with the Coq models."""
    from lsst.daf.butler import registry as R
    import lsst.daf.butler as B
    import sqlalchemy.exc

    table = [
        ("Conflict", (R.ConflictingDefinitionError,)),
        ("MissingCollection", (R.MissingCollectionError,)),
        ("MissingDatasetType", (R.MissingDatasetTypeError,)),
        ("CollectionTypeErr", (R.CollectionTypeError,)),
        ("DatasetTypeErr", (R.DatasetTypeError,)),
        ("Orphaned", (R.OrphanedRecordError,)),
        ("InconsistentDataId", (R.InconsistentDataIdError,)),
        ("DataIdValueErr", (R.DataIdValueError,)),
        ("DimensionName", (getattr(B, "DimensionNameError", KeyError),)),
        ("DataIdErr", (R.DataIdError,)),
        ("InvalidQuery", (getattr(B, "InvalidQueryError", R.UserExpressionError), R.UserExpressionError)),
        ("Cycle", (getattr(R, "CollectionCycleError", ValueError),)),
        ("Ambiguous", (getattr(B, "CalibrationLookupError", LookupError),)),
        ("NotFound", (getattr(B, "DatasetNotFoundError", LookupError), FileNotFoundError)),
        ("ReadOnly", (getattr(R.interfaces, "ReadOnlyDatabaseError", TypeError),)),
        ("SqlError", (sqlalchemy.exc.SQLAlchemyError,)),
    ]
    for name, classes in table:
        if isinstance(e, classes):
            return name
    return type(e).__name__


def cleanup(root: str):
    shutil.rmtree(root, ignore_errors=True)
