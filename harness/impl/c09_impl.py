"""Implementation driver for C09: run put / ingest(copy, move, direct, in place, one file for several refs) /
ingest_zip / trash / emptyTrash / pruneDatasets / removeRuns histories on a REAL Butler repository whose root is
nested inside a private scratch directory, and report after EVERY operation: a recursive listing (with content
hashes) of the root AND of everything around it inside the scratch directory (sentinel area, staging area),
the rows of the datastore's record / location / trash tables, and get() of every live dataset.

Layout (everything under fixture.new_root(), never anywhere else):
    <top>/w/x/repo       the repository (datastore root)
    <top>/w/x/sentinel   files the datastore must never touch
    <top>/w/x/stage      files handed to ingest, zip files produced by retrieve_artifacts_zip
A name may climb at most two levels ("../.."), which is still inside <top>; the generator enforces that.

Runs inside a worker subprocess (common.run_worker).  Locations are reported relative to the root ("../" =
outside), absolute record URIs as "/<path relative to the root's parent>".
"""
from __future__ import annotations

import os
import shutil
import sqlite3
import time

from harness.impl import fixture as fx

DT_DIMS = {"dtD": ("instrument", "detector"), "dtI": ("instrument",)}


def _listing(parent: str) -> dict:
    """{location relative to the root: sha} for every file under <top>/w (the root's grandparent)."""
    out = {}
    base = os.path.dirname(parent)          # <top>/w
    for k, v in fx.listing(base, exclude=()).items():
        p = os.path.normpath(os.path.join(base, k))
        rel = os.path.relpath(p, os.path.join(parent, "repo"))
        if rel in ("gen3.sqlite3", "butler.yaml") or rel.endswith(("-journal", "-wal", "-shm")):
            continue
        out[rel] = v
    return out


class Repo:
    def __init__(self, h):
        self.top = fx.new_root("c09")
        self.parent = os.path.join(self.top, "w", "x")
        self.root = os.path.join(self.parent, "repo")
        os.makedirs(self.parent)
        for f in h["files"]:                       # sentinel + staging files, relative to the root's parent
            p = os.path.join(self.parent, f["rel"])
            os.makedirs(os.path.dirname(p), exist_ok=True)
            with open(p, "w") as fh:
                fh.write(f["content"])
        _, self.butler = fx.make_repo(root=self.root)
        b = self.butler
        reg = b.registry
        for inst in h["instruments"]:
            fx.add_instrument(b, inst["name"], detectors=(), filters=())
            for d in inst["detectors"]:
                reg.insertDimensionData("detector", {"instrument": inst["name"], "id": d["id"], "full_name": d["full_name"],
                                                     "name_in_raft": f"d{d['id']}", "raft": "R", "purpose": "SCIENCE"})
        self.dts = {name: fx.add_dataset_type(b, name, dims) for name, dims in DT_DIMS.items()}
        for r in h["runs"]:
            reg.registerRun(r)
        self.refs = {}          # k -> DatasetRef
        self.by_id = {}         # str(uuid) -> k
        self.zips = {}          # zip number -> {"path": staging path, "members": [...], "zpath": in-store path}

    def close(self):
        shutil.rmtree(self.top, ignore_errors=True)

    def data_id(self, d):
        did = {"instrument": d["inst"]}
        if d["dt"] == "dtD":
            did["detector"] = d["det"]
        return did

    def mkref(self, k, d):
        from lsst.daf.butler import DataCoordinate, DatasetRef
        if k in self.refs:
            return self.refs[k]
        ref = DatasetRef(self.dts[d["dt"]], DataCoordinate.standardize(self.data_id(d), universe=self.butler.dimensions),
                         run=d["run"])
        return ref

    def remember(self, k, ref):
        self.refs[k] = ref
        self.by_id[str(ref.id).replace("-", "")] = k

    def canon_path(self, p: str) -> str:
        pre = "file://" + self.parent
        if p.startswith(pre):
            return p[len(pre):]
        return p

    def tables(self):
        c = sqlite3.connect(os.path.join(self.root, "gen3.sqlite3"))
        try:
            def k_of(x):
                h = x.hex() if isinstance(x, bytes) else str(x).replace("-", "")
                return self.by_id.get(h, -1)
            recs = sorted([k_of(i), self.canon_path(p)] for i, p in c.execute("select dataset_id, path from file_datastore_records"))
            live = sorted(k_of(i) for (i,) in c.execute("select dataset_id from dataset_location"))
            trash = sorted(k_of(i) for (i,) in c.execute("select dataset_id from dataset_location_trash"))
        finally:
            c.close()
        return recs, live, trash

    def observe(self, with_get=True):
        recs, live, trash = self.tables()
        gets = {}
        if with_get:
            for k in live:
                if k in self.refs:
                    try:
                        self.butler.get(self.refs[k])
                        gets[str(k)] = "ok"
                    except Exception as e:  # noqa: BLE001
                        gets[str(k)] = fx.err_class(e)
        return {"files": _listing(self.parent), "recs": recs, "live": live, "trash": trash, "get": gets}


def _do(repo: Repo, op, rec):
    from lsst.daf.butler import FileDataset
    from lsst.resources import ResourcePath
    b = repo.butler
    kind = op["op"]
    if kind == "put":
        ref = b.put({"v": op["k"]}, op["dt"], repo.data_id(op), run=op["run"])
        repo.remember(op["k"], ref)
    elif kind == "ingest":
        refs = []
        for k, d in zip(op["ks"], op["refs"]):
            ref = repo.mkref(k, d)
            refs.append(ref)
        mode = op["mode"]
        if mode == "inplace":
            path, transfer = op["rel"], None
        else:
            path, transfer = os.path.join(repo.parent, op["src"]), mode
        try:
            b.ingest(FileDataset(path=path, refs=refs), transfer=transfer)
        finally:
            # remember the refs even when the ingest was refused, so that later observations name them
            for k, ref in zip(op["ks"], refs):
                repo.remember(k, ref)
    elif kind == "mkzip":
        refs = [repo.refs[k] for k in op["ks"]]
        dest = os.path.join(repo.parent, "stage", f"z{op['z']}")
        os.makedirs(dest, exist_ok=True)
        zp = b.retrieve_artifacts_zip(refs, dest)
        from lsst.daf.butler.datastores.file_datastore.retrieve_artifacts import ZipIndex
        index = ZipIndex.from_zip_file(zp)
        members = []
        for path_in_zip, info in index.artifact_map.items():
            for id_ in info.ids:
                members.append([repo.by_id.get(str(id_).replace("-", ""), -1), path_in_zip])
        repo.zips[op["z"]] = {"path": zp}
        rec["zip"] = {"src": os.path.relpath(zp.ospath, repo.parent), "zpath": index.calculate_zip_file_path_in_store(),
                      "members": sorted(members)}
    elif kind == "ingestzip":
        b.ingest_zip(repo.zips[op["z"]]["path"], transfer="copy")
    elif kind == "trash":
        b._datastore.trash([repo.refs[k] for k in op["ks"] if k in repo.refs])
    elif kind == "empty":
        b._datastore.emptyTrash()
    elif kind == "prune":
        refs = [repo.refs[k] for k in op["ks"] if k in repo.refs]
        b.pruneDatasets(refs, purge=op["purge"], unstore=True, disassociate=op["purge"])
    elif kind == "removerun":
        b.removeRuns([op["run"]], unstore=True)
    elif kind == "mkfile":
        p = os.path.join(repo.parent, op["rel"])
        os.makedirs(os.path.dirname(p), exist_ok=True)
        with open(p, "w") as fh:
            fh.write(op["content"])
    else:
        raise RuntimeError(f"unknown op {kind}")


def run_history(h):
    repo = Repo(h)
    steps = []
    try:
        steps.append({"out": "init", **repo.observe(False)})
        for op in h["ops"]:
            rec = {"out": "ok"}
            try:
                _do(repo, op, rec)
            except Exception as e:  # noqa: BLE001
                rec["out"] = type(e).__name__ if type(e) in (ValueError, RuntimeError, KeyError, FileNotFoundError) else fx.err_class(e)
                rec["msg"] = f"{type(e).__name__}: {e}"[:240]
            rec.update(repo.observe(True))
            steps.append(rec)
    finally:
        repo.close()
    return {"steps": steps}


def run_histories(payload):
    out = []
    t0 = time.time()
    for h in payload["histories"]:
        if time.time() - t0 > payload.get("budget_s", 1e9):
            out.append({"skipped": True})
            continue
        try:
            out.append(run_history(h))
        except Exception as e:  # noqa: BLE001
            import traceback
            out.append({"harness_error": f"{type(e).__name__}: {e}", "tb": traceback.format_exc()[-1500:]})
    return out


def format_paths(payload):
    """Template + location cases, no artifacts written: for each (dt, inst, det, run) the text FileDatastore keeps as
    pathInStore for a put/ingest target and where that lives relative to the root."""
    from lsst.daf.butler import DataCoordinate, DatasetRef

    top = fx.new_root("c09f")
    root = os.path.join(top, "w", "x", "repo")
    os.makedirs(os.path.dirname(root))
    try:
        _, b = fx.make_repo(root=root)
        reg = b.registry
        for inst in payload["instruments"]:
            fx.add_instrument(b, inst["name"], detectors=(), filters=())
            for d in inst["detectors"]:
                reg.insertDimensionData("detector", {"instrument": inst["name"], "id": d["id"], "full_name": d["full_name"],
                                                     "name_in_raft": f"d{d['id']}", "raft": "R", "purpose": "SCIENCE"})
        dts = {name: fx.add_dataset_type(b, name, dims) for name, dims in DT_DIMS.items()}
        fds = b._datastore
        out = []
        for c in payload["cases"]:
            did = {"instrument": c["inst"]}
            if c["dt"] == "dtD":
                did["detector"] = c["det"]
            try:
                full = reg.expandDataId(did, dimensions=dts[c["dt"]].dimensions)
                ref = DatasetRef(dts[c["dt"]], full, run=c["run"])
                loc, _ = fds._determine_put_formatter_location(ref)
                full = os.path.normpath(loc.uri.ospath)
                where = os.path.relpath(full, root) if full.startswith(top + "/") else full   # absolute = left the scratch area
                out.append(["ok", loc.pathInStore.path, where])
            except Exception as e:  # noqa: BLE001
                out.append(["err", type(e).__name__, str(e)[:120]])
        return out
    finally:
        shutil.rmtree(top, ignore_errors=True)
