"""Implementation driver for C01: run put / ingest / transfer / associate / remove histories on REAL Butler
repositories (two per history: A and B) and report what the implementation did and returned.

Runs inside a worker subprocess (common.run_worker).  Everything reported is canonical: payload numbers
instead of objects, paths relative to the datastore root, error class names, file sizes.
"""
from __future__ import annotations

import json
import os
import pickle
import shutil
import time

from harness.impl import fixture as fx

DTYPES = {
    "dtD": (("instrument", "detector"), "StructuredDataDict"),
    "dtL": (("instrument",), "StructuredDataList"),
    "dtF": (("instrument", "physical_filter"), "StructuredDataDict"),
}
TAGS = ("tagA", "tagB")


def canon(o):
    """Type-strict canonical text of a payload (1, 1.0 and True are different; dict order is irrelevant)."""
    if o is None:
        return "n"
    if isinstance(o, bool):
        return "b1" if o else "b0"
    if isinstance(o, int):
        return "i" + str(o)
    if isinstance(o, float):
        return "f" + o.hex()
    if isinstance(o, str):
        return "s" + json.dumps(o)
    if isinstance(o, list):
        return "[" + ",".join(canon(x) for x in o) + "]"
    if isinstance(o, dict):
        items = sorted((canon(k), canon(v)) for k, v in o.items())
        return "{" + ",".join(k + ":" + v for k, v in items) + "}"
    return "?" + type(o).__name__ + repr(o)


def decode_payload(p):
    """Payloads travel as JSON with floats written as {"__f": hex} so that they are exact."""
    if isinstance(p, dict):
        if set(p) == {"__f"}:
            return float.fromhex(p["__f"])
        return {k: decode_payload(v) for k, v in p.items()}
    if isinstance(p, list):
        return [decode_payload(x) for x in p]
    return p


def serialise(obj, fmt: str) -> bytes:
    """What an external producer would hand to ingest (library serialisation, not the Butler formatter)."""
    if fmt == "yaml":
        import yaml
        return yaml.safe_dump(obj, allow_unicode=True).encode()
    if fmt == "json":
        return json.dumps(obj).encode()
    return pickle.dumps(obj, protocol=-1)


class Repo:
    def __init__(self, cfg, setup):
        self.ds = cfg["ds"]
        self.fmt = cfg["fmt"]
        self.root, self.butler = fx.make_repo(datastore=self.ds, formatter=self.fmt)
        b = self.butler
        reg = b.registry
        for inst in setup["instruments"]:
            fx.add_instrument(b, inst["name"], detectors=(), filters=())
            for d in inst["detectors"]:
                reg.insertDimensionData("detector", {"instrument": inst["name"], "id": d["id"], "full_name": d["full_name"],
                                                     "name_in_raft": f"d{d['id']}", "raft": "R", "purpose": "SCIENCE"})
            for f in inst["filters"]:
                reg.insertDimensionData("physical_filter", {"instrument": inst["name"], "name": f["name"], "band": f["band"]})
        for name, (dims, sc) in DTYPES.items():
            fx.add_dataset_type(b, name, dims, sc)
        for r in setup["runs"]:
            reg.registerRun(r)
        from lsst.daf.butler import CollectionType
        for t in TAGS:
            reg.registerCollection(t, CollectionType.TAGGED)
        self.refs = {}       # k -> DatasetRef
        self.intended = {}   # k -> (dt, dataId dict, run)
        self.fresh_butler = None

    def file_datastore(self):
        ds = self.butler._datastore
        if self.ds == "file":
            return ds
        if self.ds == "chained":
            for child in ds.datastores:
                if type(child).__name__ == "FileDatastore":
                    return child
        return None

    def close(self):
        fx.cleanup(self.root)

    def data_id(self, op):
        d = {"instrument": op["inst"]}
        if op["dt"] == "dtD":
            d["detector"] = op["det"]
        if op["dt"] == "dtF":
            d["physical_filter"] = op["pf"]
        return d

    def rel_uri(self, ref):
        fds = self.file_datastore()
        if fds is None:
            return None
        try:
            u = fds.getURI(ref)
        except FileNotFoundError:
            return None
        rel = u.relative_to(fds.root)
        return rel if rel is not None else "ABS:" + str(u)

    def listing(self):
        fds = self.file_datastore()
        if fds is None:
            return {}
        base = fds.root.ospath
        out = {}
        for dp, _, fn in os.walk(base):
            for f in fn:
                p = os.path.join(dp, f)
                rel = os.path.relpath(p, base)
                if rel in ("gen3.sqlite3", "butler.yaml") or rel.endswith(("-journal", "-wal", "-shm")):
                    continue
                out[rel] = os.path.getsize(p)
        return out


def _read(butler, ref, canons):
    try:
        got = butler.get(ref)
    except Exception as e:  # noqa: BLE001
        return ["err", fx.err_class(e), str(e)[:120]]
    c = canon(got)
    if c in canons:
        return ["ok", canons[c]]
    return ["ok", -1, c[:300]]


def _observe(repo: Repo, canons, fresh: bool, tag_active: bool):
    b = repo.butler
    ds = []
    fb = None
    if fresh and repo.ds != "memory":
        fb = fx.open_repo(repo.root, writeable=False)
    for k, ref in repo.refs.items():
        dt, did, run = repo.intended[k]
        ent = {"k": k, "get": _read(b, ref, canons), "uri": repo.rel_uri(ref)}
        if fb is not None:
            ent["fresh"] = _read(fb, ref, canons)
        try:
            cur = b.get_dataset(ref.id)
        except Exception as e:  # noqa: BLE001
            cur = None
            ent["reg_error"] = fx.err_class(e)
        if cur is None:
            ent["reg"] = None
        else:
            ent["reg"] = {"type": cur.datasetType.name, "dataId": {kk: cur.dataId[kk] for kk in cur.dataId.dimensions.required},
                          "run": cur.run, "id_same": str(cur.id) == str(ref.id),
                          "storage_class": cur.datasetType.storageClass_name}
        ds.append(ent)
    tags = []
    if tag_active:
        by_id = {str(r.id): k for k, r in repo.refs.items()}
        seen = set()
        for t in TAGS:
            for k, (dt, did, run) in repo.intended.items():
                key = (t, dt, json.dumps(did, sort_keys=True))
                if key in seen:
                    continue
                seen.add(key)
                try:
                    f = b.find_dataset(dt, did, collections=[t])
                except Exception as e:  # noqa: BLE001
                    tags.append({"tag": t, "k": k, "found": "err:" + fx.err_class(e)})
                    continue
                ent = {"tag": t, "k": k, "found": None if f is None else by_id.get(str(f.id), -1)}
                if f is not None:
                    try:
                        got = b.get(dt, did, collections=[t])
                        c = canon(got)
                        ent["get"] = ["ok", canons.get(c, -1)]
                    except Exception as e:  # noqa: BLE001
                        ent["get"] = ["err", fx.err_class(e)]
                tags.append(ent)
    return {"ds": ds, "tags": tags, "files": repo.listing()}


def run_history(h):
    from lsst.daf.butler import DataCoordinate, DatasetRef, FileDataset

    repos = {"A": Repo(h["cfgA"], h["setup"]), "B": Repo(h["cfgB"], h["setup"])}
    payloads = [decode_payload(p) for p in h["payloads"]]
    canons = {}
    for i, p in enumerate(payloads):
        canons.setdefault(canon(p), i)
    srcdir = fx.new_root("c01src")
    steps = []
    sizes = {}          # "fmt:payload" -> size of the formatter's output
    tag_active = any(o["op"] in ("assoc", "disassoc") for o in h["ops"])
    try:
        for n, op in enumerate(h["ops"]):
            kind = op["op"]
            rec = {"out": "ok"}
            # an operation that names a dataset this repository never received (e.g. a transfer that skipped it)
            # cannot be issued at all: it is skipped, and reported as such
            missing = False
            if kind == "ingest" and op.get("reuse") is not None:
                missing = op["reuse"] not in repos[op["repo"]].refs
            elif kind == "xfer":
                missing = op["k"] not in repos[op["from"]].refs
            elif kind in ("assoc", "disassoc"):
                missing = op["k"] not in repos[op["repo"]].refs
            elif kind == "remove":
                rec["ks_used"] = [k for k in op["ks"] if k in repos[op["repo"]].refs]
                missing = not rec["ks_used"]
            if missing:
                steps.append({"out": "skipped"})
                continue
            try:
                if kind == "put":
                    r = repos[op["repo"]]
                    did = r.data_id(op)
                    ref = r.butler.put(payloads[op["payload"]], op["dt"], did, run=op["run"])
                    r.refs[op["k"]] = ref
                    r.intended[op["k"]] = (op["dt"], did, op["run"])
                    u = r.rel_uri(ref)
                    if u is not None and not u.startswith("ABS:"):
                        sizes[f"{r.fmt}:{op['payload']}"] = os.path.getsize(os.path.join(r.file_datastore().root.ospath, u))
                elif kind == "ingest":
                    r = repos[op["repo"]]
                    data = serialise(payloads[op["payload"]], r.fmt)
                    src = os.path.join(srcdir, f"src{n}.{ {'yaml': 'yaml', 'json': 'json', 'pickle': 'pickle'}[r.fmt] }")
                    with open(src, "wb") as fh:
                        fh.write(data)
                    rec["src_size"] = len(data)
                    if op.get("reuse") is not None:
                        ref = r.refs[op["reuse"]]
                        new = False
                    else:
                        did = r.data_id(op)
                        dt = r.butler.get_dataset_type(op["dt"])
                        ref = DatasetRef(dt, DataCoordinate.standardize(did, universe=r.butler.dimensions), run=op["run"])
                        new = True
                    try:
                        r.butler.ingest(FileDataset(path=src, refs=[ref]), transfer="move" if op["move"] else "copy",
                                        record_validation_info=not op.get("noval", False))
                    finally:
                        rec["src_left"] = os.path.exists(src)
                    if new:
                        r.refs[op["k"]] = ref
                        r.intended[op["k"]] = (op["dt"], did, op["run"])
                elif kind == "xfer":
                    src, dst = repos[op["from"]], repos[op["to"]]
                    ref = src.refs[op["k"]]
                    got = dst.butler.transfer_from(src.butler, [ref], transfer="copy")
                    rec["transferred"] = len(got)
                    if len(got) and op["k"] not in dst.refs:
                        dst.refs[op["k"]] = ref
                        dst.intended[op["k"]] = src.intended[op["k"]]
                elif kind == "assoc":
                    r = repos[op["repo"]]
                    r.butler.registry.associate(op["tag"], [r.refs[op["k"]]])
                elif kind == "disassoc":
                    r = repos[op["repo"]]
                    r.butler.registry.disassociate(op["tag"], [r.refs[op["k"]]])
                elif kind == "remove":
                    r = repos[op["repo"]]
                    refs = [r.refs[k] for k in rec["ks_used"]]
                    r.butler.pruneDatasets(refs, purge=op["purge"], unstore=True, disassociate=op["purge"])
                else:
                    raise RuntimeError(f"unknown op {kind}")
            except Exception as e:  # noqa: BLE001
                rec["out"] = fx.err_class(e)
                rec["msg"] = f"{type(e).__name__}: {e}"[:200]
                if kind == "ingest" and op.get("reuse") is None and rec["out"] != "ok":
                    # a refused ingest of a new ref: remember the ref so that later observations cover it
                    r = repos[op["repo"]]
                    try:
                        r.refs[op["k"]] = ref
                        r.intended[op["k"]] = (op["dt"], r.data_id(op), op["run"])
                    except Exception:  # noqa: BLE001
                        pass
            fresh = bool(op.get("fresh")) or n == len(h["ops"]) - 1
            rec["A"] = _observe(repos["A"], canons, fresh, tag_active)
            rec["B"] = _observe(repos["B"], canons, fresh, tag_active)
            steps.append(rec)
    finally:
        for r in repos.values():
            r.close()
        shutil.rmtree(srcdir, ignore_errors=True)
    return {"steps": steps, "sizes": sizes}


def run_histories(payload):
    out = []
    t0 = time.time()
    for h in payload["histories"]:
        if time.time() - t0 > payload.get("budget_s", 1e9):
            out.append({"skipped": True})
            continue
        try:
            out.append(run_history(h))
        except Exception as e:  # noqa: BLE001
            import traceback
            out.append({"harness_error": f"{type(e).__name__}: {e}", "tb": traceback.format_exc()[-1500:]})
    return out


def format_paths(payload):
    """Template-only cases: FileTemplate.format through the real datastore configuration, no artifacts written.
    payload: {fmt, instruments:[{name, detectors:[{id, full_name}], filters:[{name, band}]}], cases:[{dt, inst, det, pf, run}]}"""
    from lsst.daf.butler import DataCoordinate, DatasetRef

    root, b = fx.make_repo(datastore="file", formatter=payload["fmt"])
    try:
        reg = b.registry
        for inst in payload["instruments"]:
            fx.add_instrument(b, inst["name"], detectors=(), filters=())
            for d in inst["detectors"]:
                reg.insertDimensionData("detector", {"instrument": inst["name"], "id": d["id"], "full_name": d["full_name"],
                                                     "name_in_raft": f"d{d['id']}", "raft": "R", "purpose": "SCIENCE"})
            for f in inst["filters"]:
                reg.insertDimensionData("physical_filter", {"instrument": inst["name"], "name": f["name"], "band": f["band"]})
        dts = {name: fx.add_dataset_type(b, name, dims, sc) for name, (dims, sc) in DTYPES.items()}
        fds = b._datastore
        out = []
        for c in payload["cases"]:
            did = {"instrument": c["inst"]}
            if c["dt"] == "dtD":
                did["detector"] = c["det"]
            if c["dt"] == "dtF":
                did["physical_filter"] = c["pf"]
            try:
                full = reg.expandDataId(did, dimensions=dts[c["dt"]].dimensions)
                ref = DatasetRef(dts[c["dt"]], full, run=c["run"])
                loc, _ = fds._determine_put_formatter_location(ref)
                out.append(["ok", loc.pathInStore.path])
            except Exception as e:  # noqa: BLE001
                out.append(["err", type(e).__name__, str(e)[:120]])
        return out
    finally:
        fx.cleanup(root)
