"""Implementation driver for C14 (runs inside worker subprocesses, see common.run_worker).

parse_batch : strings -> what the REAL lexer / parse_expression / Node.__str__ do with them
butler_batch: where-strings -> outcome classes of Butler.query_data_ids / query_dimension_records /
              legacy registry.queryDataIds on a scratch repository
"""
from __future__ import annotations

import re
import traceback
import warnings

from harness.impl import fixture

warnings.filterwarnings("ignore")

_TIME_CAND = re.compile(r"(?=[Tt]'([^'\n]*)')")


class _Times:
    """Interns astropy time values: id = index of (format, scale, jd1, jd2)."""

    def __init__(self):
        self.ids = {}
        self.show = {}

    def vid(self, t) -> str:
        # canonical (the same in every worker): format, scale and the two-part Julian date
        key = f"{t.format}/{t.scale}/{float(t.jd1)!r}/{float(t.jd2)!r}"
        if key not in self.ids:
            self.ids[key] = key
            self.show[key] = "{value}".format(value=t)
        return key


def tree_json(t, times: _Times):
    from lsst.daf.butler.registry.queries.expressions.parser import exprTree as E

    if t is None:
        return None
    # order matters: PointNode / TupleNode etc. are all Node subclasses without mutual inheritance
    if isinstance(t, E.BinaryOp):
        return ["Binary", tree_json(t.lhs, times), str(t.op), tree_json(t.rhs, times)]
    if isinstance(t, E.UnaryOp):
        return ["Unary", str(t.op), tree_json(t.operand, times)]
    if isinstance(t, E.IsIn):
        return ["IsIn", tree_json(t.lhs, times), [tree_json(v, times) for v in t.values], bool(t.not_in)]
    if isinstance(t, E.Parens):
        return ["Parens", tree_json(t.expr, times)]
    if isinstance(t, E.TupleNode):
        return ["Tuple"] + [tree_json(v, times) for v in t.items]
    if isinstance(t, E.PointNode):
        return ["Point", tree_json(t.ra, times), tree_json(t.dec, times)]
    if isinstance(t, E.FunctionCall):
        return ["Call", t.name, [tree_json(v, times) for v in t.args]]
    if isinstance(t, E.RangeLiteral):
        return ["Range", int(t.start), int(t.stop), None if t.stride is None else int(t.stride)]
    if isinstance(t, E.TimeLiteral):
        v = t.value
        return ["Time", times.vid(v), {"format": v.format, "scale": v.scale, "tai_jd1": float(v.tai.jd1), "tai_jd2": float(v.tai.jd2)}]
    if isinstance(t, E.NumericLiteral):
        return ["Num", t.value]
    if isinstance(t, E.StringLiteral):
        return ["Str", t.value]
    if isinstance(t, E.Identifier):
        return ["Ident", t.name]
    if isinstance(t, E.BindName):
        return ["Bind", t.name]
    return ["Unknown", type(t).__name__]


def _exc_class(e: BaseException) -> str:
    from lsst.daf.butler.registry.queries.expressions.parser import ParserYaccError

    if isinstance(e, ParserYaccError):
        return "parser"
    if type(e) is ValueError and "POINT requires" in str(e):
        return "value"
    return "other:" + type(e).__name__


def _lex(s: str):
    from lsst.daf.butler.registry.queries.expressions.parser.parserLex import ParserLex, ParserLexError

    lx = ParserLex.make_lexer()
    lx.input(s)
    out = []
    try:
        while True:
            t = lx.token()
            if t is None:
                break
            v = t.value
            if t.type == "RANGE_LITERAL":
                v = [int(v[0]), int(v[1]), None if v[2] is None else int(v[2])]
            out.append([t.type, v])
    except ParserLexError:
        out.append(["BAD", None])
    except Exception as e:  # noqa: BLE001
        out.append(["EXC", type(e).__name__])
    return out


def parse_one(s: str, times: _Times):
    from lsst.daf.butler.registry.queries.expressions.parser import parse_expression
    from lsst.daf.butler.registry.queries.expressions.parser.parserYacc import _parseTimeString

    rec = {"s": s}
    rec["tokens"] = _lex(s)
    tt = {}
    for m in _TIME_CAND.finditer(s):
        txt = m.group(1)
        if txt in tt:
            continue
        try:
            tt[txt] = times.vid(_parseTimeString(txt))
        except ValueError:
            tt[txt] = None
        except Exception as e:  # noqa: BLE001  (anything else escapes the parser's own `except ValueError`)
            tt[txt] = "EXC:" + type(e).__name__
    rec["times"] = tt
    try:
        t = parse_expression(s)
    except Exception as e:  # noqa: BLE001
        rec["exc"] = _exc_class(e)
        rec["exc_type"] = type(e).__name__
        return rec
    rec["tree"] = tree_json(t, times)
    if t is not None:
        try:
            st = str(t)
            rec["str"] = st
            try:
                t2 = parse_expression(st)
                rec["retree"] = tree_json(t2, times)
            except Exception as e:  # noqa: BLE001
                rec["reexc"] = type(e).__name__
        except Exception as e:  # noqa: BLE001
            rec["strexc"] = type(e).__name__
    return rec


def parse_batch(payload):
    times = _Times()
    out = [parse_one(s, times) for s in payload["strings"]]
    return {"results": out, "tshow": times.show}


# ------------------------------------------------------------------------------------------------
# conversion stage: convert_expression_string_to_predicate observed directly (no repository needed)

_TY = {"int": "TyInt", "string": "TyStr", "float": "TyReal", "bool": "TyBool", "datetime": "TyTime", "timespan": "TySpan"}


def _lit_json(v):
    """a bind / literal value as the model's `value`, or None when Expr.v has no such value"""
    import astropy.time
    from fractions import Fraction
    import math

    from lsst.daf.butler import Timespan
    from lsst.daf.butler.time_utils import TimeConverter

    if isinstance(v, bool):
        return None
    if isinstance(v, int):
        return ["int", v]
    if isinstance(v, float):
        if not math.isfinite(v):
            return None
        f = Fraction(v)
        return ["real", f.numerator, f.denominator]
    if isinstance(v, str):
        return ["str", v]
    if isinstance(v, astropy.time.Time):
        return ["time", int(TimeConverter().astropy_to_nsec(v))]
    if isinstance(v, Timespan):
        return ["span", int(v.nsec[0]), int(v.nsec[1])]
    return None


def _bind_value(j):
    """JSON -> bind value: {"time": iso, "scale": s} is an astropy Time, lists stay lists"""
    import astropy.time

    if isinstance(j, dict) and "time" in j:
        return astropy.time.Time(j["time"], scale=j.get("scale", "tai"))
    if isinstance(j, list):
        return [_bind_value(x) for x in j]
    return j


class _Cols:
    def __init__(self):
        self.ids = {}

    def cid(self, key: str) -> int:
        return self.ids.setdefault(key, len(self.ids))


def _resolve(visitor, name: str, cols: _Cols):
    """what the real visitIdentifier returns for a (lower-cased) name, as the model's `option rid`"""
    from lsst.daf.butler import InvalidQueryError
    from lsst.daf.butler.queries import _expression_strings as X
    from lsst.daf.butler.queries.tree import Predicate

    try:
        r = visitor.visitIdentifier(name, None)
    except InvalidQueryError:
        return None
    except Exception as e:  # noqa: BLE001
        return ["exc", type(e).__name__]

    def col_key(expr):
        et = expr.expression_type
        if et == "dimension_key":
            return f"{expr.dimension.name}"
        if et == "dimension_field":
            return f"{expr.element.name}.{expr.field}"
        if et == "dataset_field":
            return f"{expr.dataset_type}:{expr.field}"
        return None

    if isinstance(r, X._Null):
        return ["null"]
    if isinstance(r, X._Sequence):
        vals = [_lit_json(getattr(x, "value", None)) for x in r.value]
        return ["other"] if any(v is None for v in vals) else ["seq", vals]
    if isinstance(r, Predicate):
        ref = X._get_boolean_column_reference(r)
        key = col_key(ref) if ref is not None else None
        return ["col", cols.cid(key), "TyBool"] if key is not None else ["other"]
    if isinstance(r, X._ColExpr):
        expr = r.value
        et = expr.expression_type
        key = col_key(expr)
        if key is not None:
            ty = _TY.get(expr.column_type)
            return ["col", cols.cid(key), ty] if ty and ty != "TyBool" else ["other"]
        if et == "unary" and expr.operator in ("begin_of", "end_of"):
            k2 = col_key(expr.operand)
            if k2 is not None and expr.operand.column_type == "timespan":
                return ["begin" if expr.operator == "begin_of" else "end", cols.cid(k2)]
            return ["other"]
        if hasattr(expr, "value") and et in ("int", "float", "string", "datetime", "timespan"):
            v = _lit_json(expr.value)
            return ["lit", v] if v is not None else ["other"]
        return ["other"]
    return ["other"]


def _names(t, out):
    from lsst.daf.butler.registry.queries.expressions.parser import exprTree as E

    if isinstance(t, (E.Identifier, E.BindName)):
        out.add(t.name.lower())
    for attr in ("lhs", "rhs", "operand", "expr", "ra", "dec"):
        c = getattr(t, attr, None)
        if isinstance(c, E.Node):
            _names(c, out)
    for attr in ("values", "items", "args"):
        for c in getattr(t, attr, None) or ():
            if isinstance(c, E.Node):
                _names(c, out)


def _tree_ranges(t, out):
    """(start, stop, stride) of every RangeLiteral of the parse tree"""
    from lsst.daf.butler.registry.queries.expressions.parser import exprTree as E

    if isinstance(t, E.RangeLiteral):
        out.append([int(t.start), int(t.stop), None if t.stride is None else int(t.stride)])
    for attr in ("lhs", "rhs", "operand", "expr", "ra", "dec"):
        c = getattr(t, attr, None)
        if isinstance(c, E.Node):
            _tree_ranges(c, out)
    for attr in ("values", "items", "args"):
        for c in getattr(t, attr, None) or ():
            if isinstance(c, E.Node):
                _tree_ranges(c, out)


def _pred_ranges(pred):
    """(start, stop, step) of every in_range leaf of a Predicate (stop exclusive, as Predicate.in_range documents it)"""
    out = []
    for group in pred.operands:
        for leaf in group:
            if getattr(leaf, "predicate_type", None) == "not":
                leaf = leaf.operand
            if getattr(leaf, "predicate_type", None) == "in_range":
                out.append([int(leaf.start), None if leaf.stop is None else int(leaf.stop), int(leaf.step)])
    return out


def conv_batch(payload):
    """payload: {"strings": [...], "bind": {...}, "dimensions": [...]} -> per string: time table, resolution of every
    name in the tree (observed from the real visitIdentifier) and what convert_expression_string_to_predicate did."""
    from lsst.daf.butler import DimensionUniverse, InvalidQueryError
    from lsst.daf.butler.queries._expression_strings import _ConversionVisitor, convert_expression_string_to_predicate
    from lsst.daf.butler.queries._identifiers import IdentifierContext
    from lsst.daf.butler.registry.queries.expressions.parser import parse_expression
    from lsst.daf.butler.registry.queries.expressions.parser.parserYacc import _parseTimeString
    from lsst.daf.butler.time_utils import TimeConverter

    universe = DimensionUniverse()
    bind = {k: _bind_value(v) for k, v in (payload.get("bind") or {}).items()}
    context = IdentifierContext(universe.conform(payload["dimensions"]), frozenset(payload.get("datasets") or ()), bind)
    times, cols = _Times(), _Cols()
    out = []
    for s in payload["strings"]:
        rec = {"s": s}
        tt, tns = {}, {}
        for m in _TIME_CAND.finditer(s):
            txt = m.group(1)
            if txt in tt:
                continue
            try:
                tval = _parseTimeString(txt)
                tt[txt] = times.vid(tval)
                tns[tt[txt]] = int(TimeConverter().astropy_to_nsec(tval))
            except ValueError:
                tt[txt] = None
            except Exception:  # noqa: BLE001
                tt[txt] = None
        rec["times"], rec["tns"] = tt, tns
        res = {}
        try:
            tree = parse_expression(s)
        except Exception:  # noqa: BLE001
            tree = None
        if tree is not None:
            names = set()
            _names(tree, names)
            visitor = _ConversionVisitor(context, universe)
            for n in sorted(names):
                res[n] = _resolve(visitor, n, cols)
        rec["res"] = res
        try:
            pred = convert_expression_string_to_predicate(s, context=context, universe=universe)
            rec["obs"] = "accept"
            if tree is not None:
                tr_ranges = []
                _tree_ranges(tree, tr_ranges)
                if tr_ranges:
                    rec["ranges"] = {"tree": tr_ranges, "pred": _pred_ranges(pred)}
        except InvalidQueryError:
            rec["obs"] = "invalid"
        except Exception as e:  # noqa: BLE001
            rec["obs"] = "other"
            rec["fail"] = _where_fail(e)
        out.append(rec)
    return {"results": out, "bound": sorted(context.bind.keys())}


def numlit_batch(payload):
    """payload: {"texts": [...]} -> what the real visitNumericLiteral makes of each NUMERIC_LITERAL text"""
    from lsst.daf.butler import DimensionUniverse
    from lsst.daf.butler.queries._expression_strings import _ConversionVisitor
    from lsst.daf.butler.queries._identifiers import IdentifierContext

    universe = DimensionUniverse()
    visitor = _ConversionVisitor(IdentifierContext(universe.conform(["detector"]), frozenset(), {}), universe)
    out = []
    for t in payload["texts"]:
        try:
            r = visitor.visitNumericLiteral(t, None)
            v = r.value.value
            out.append({"type": r.value.expression_type, "int": v if isinstance(v, int) and not isinstance(v, bool) else None,
                        "float": float(v) if isinstance(v, float) else None})
        except Exception as e:  # noqa: BLE001
            out.append({"exc": type(e).__name__})
    return {"results": out}


# ------------------------------------------------------------------------------------------------

def _populate(butler):
    import astropy.time
    from lsst.daf.butler import Timespan
    import lsst.sphgeom as sg

    fixture.add_instrument(butler, "Cam", detectors=(0, 1, 2, 3))
    reg = butler.registry
    t0 = astropy.time.Time("2020-01-01T00:00:00", scale="tai")
    t1 = astropy.time.Time("2020-01-01T00:10:00", scale="tai")
    region = sg.ConvexPolygon([sg.UnitVector3d(sg.LonLat.fromDegrees(a, b)) for a, b in ((0, 0), (2, 0), (2, 2), (0, 2))])
    try:
        reg.insertDimensionData("day_obs", {"instrument": "Cam", "id": 20200101})
    except Exception:  # noqa: BLE001  (older universes have no day_obs)
        pass
    for v in (1, 2):
        try:
            reg.insertDimensionData("group", {"instrument": "Cam", "name": f"g{v}"})
        except Exception:  # noqa: BLE001  (older universes have no group dimension)
            pass
        reg.insertDimensionData("visit", {"instrument": "Cam", "id": v, "name": f"v{v}", "physical_filter": "g", "day_obs": 20200101,
                                          "timespan": Timespan(t0, t1), "region": region, "exposure_time": 30.0, "seq_num": v})
        reg.insertDimensionData("exposure", {"instrument": "Cam", "id": v, "obs_id": f"e{v}", "physical_filter": "g", "day_obs": 20200101,
                                             "timespan": Timespan(t0, t1), "exposure_time": 30.0, "seq_num": v, "group": f"g{v}"})


def _where_fail(e: BaseException) -> dict:
    from lsst.daf.butler import InvalidQueryError

    tb = traceback.extract_tb(e.__traceback__)
    loc = "?"
    for fr in reversed(tb):
        if "/lsst/" in fr.filename or "daf" in fr.filename:
            loc = f"{fr.filename.rsplit('/', 1)[-1]}:{fr.name}"
            break
    return {"ok": False, "invalid_query": isinstance(e, InvalidQueryError), "type": type(e).__name__, "cls": fixture.err_class(e),
            "loc": loc, "msg": str(e)[:200]}


def butler_batch(payload):
    """payload: {"wheres": [...], "bind": {...}}; one scratch repository per call."""
    root, butler = fixture.make_repo(fixture.new_root("c14"))
    out = []
    try:
        _populate(butler)
        bind = payload.get("bind") or {}
        import time as _time
        for w in payload["wheres"]:
            rec = {"where": w}
            _t0 = _time.time()
            for name, fn in (
                ("query_data_ids", lambda: list(butler.query_data_ids(["visit", "detector"], where=w, bind=bind, instrument="Cam", explain=False))),
                ("query_dimension_records", lambda: list(butler.query_dimension_records("detector", where=w, bind=bind, instrument="Cam", explain=False))),
                ("legacy", lambda: list(butler.registry.queryDataIds(["visit", "detector"], where=w, bind=bind, instrument="Cam"))),
            ):
                _t1 = _time.time()
                try:
                    r = fn()
                    rec[name] = {"ok": True, "n": len(r)}
                except Exception as e:  # noqa: BLE001
                    rec[name] = _where_fail(e)
                rec[name]["seconds"] = round(_time.time() - _t1, 2)
            rec["seconds"] = round(_time.time() - _t0, 2)
            out.append(rec)
    finally:
        try:
            butler.close() if hasattr(butler, "close") else None
        except Exception:  # noqa: BLE001
            pass
        fixture.cleanup(root)
    return {"results": out}
