"""Implementation driver for C12: runs the REAL DimensionUniverse / DimensionGroup and records observations.

Runs in a worker subprocess (harness.common.run_worker).  One worker = one universe YAML file.  No oracle and no
model here: only what the implementation returned (plus identity / operator-consistency facts that can only be
observed in-process).
"""
from __future__ import annotations

import pickle
import random
import signal


class _Hang(Exception):
    pass


def _alarm(signum, frame):  # noqa: ARG001
    raise _Hang()


def _err_class(e: BaseException) -> str:
    if isinstance(e, KeyError):
        return "KeyError"
    return type(e).__name__


def _load(path, default):
    from lsst.daf.butler import DimensionConfig, DimensionUniverse
    if default:
        return DimensionUniverse()
    return DimensionUniverse(DimensionConfig(path))


def _kind(e):
    from lsst.daf.butler.dimensions import GovernorDimension, SkyPixDimension, Dimension
    if isinstance(e, GovernorDimension):
        return "governor"
    if isinstance(e, SkyPixDimension):
        return "skypix"
    if isinstance(e, Dimension):
        return "dimension"
    return "combination"


def describe(u):
    from lsst.daf.butler import TopologicalSpace
    out = []
    for e in u.elements:
        topo = e.topology
        sp = topo.get(TopologicalSpace.SPATIAL)
        tm = topo.get(TopologicalSpace.TEMPORAL)
        pop = e.populated_by
        out.append({
            "name": e.name, "kind": _kind(e), "required": list(e.required.names), "implied": list(e.implied.names),
            "always_join": bool(e.alwaysJoin), "populated_by": None if pop is None else pop.name,
            "spatial": None if sp is None else sp.name, "temporal": None if tm is None else tm.name,
        })
    return out


def _observe_group(u, g, with_lookup=True):
    o = {
        "names": list(g.names), "required": list(g.required), "implied": list(g.implied),
        "elements": list(g.elements), "governors": list(g.governors), "skypix": list(g.skypix),
        "dck": list(g.data_coordinate_keys), "len": len(g),
    }
    if with_lookup:
        signal.signal(signal.SIGALRM, _alarm)
        signal.setitimer(signal.ITIMER_REAL, 1.5)
        try:
            o["lookup"] = list(g.lookup_order)
        except _Hang:
            o["lookup"] = None
        finally:
            signal.setitimer(signal.ITIMER_REAL, 0)
    return o


def _spellings(u, names, g, rng):
    """Every way of spelling the same set must give the same (cached) object."""
    from lsst.daf.butler import DimensionGroup
    bad = []
    names = list(names)
    shuffled = names[:]
    rng.shuffle(shuffled)
    trials = {
        "reversed": lambda: DimensionGroup(u, list(reversed(names))),
        "shuffled": lambda: u.conform(shuffled),
        "duplicated": lambda: u.conform(names + shuffled),
        "tuple": lambda: u.conform(tuple(names)),
        "iterator": lambda: u.conform(iter(names)),
        "frozenset": lambda: u.conform(frozenset(names)),
        "group": lambda: u.conform(g),
        "group_ctor": lambda: DimensionGroup(u, g),
        "own_names": lambda: u.conform(g.names),
        "full_names_list": lambda: DimensionGroup(u, list(g.names)),
        "no_conform": lambda: DimensionGroup(u, g.names.as_tuple(), _conform=False),
        "required_only": lambda: u.conform(g.required),
        "simple": lambda: DimensionGroup.from_simple(g.to_simple(), u),
        "pickle": lambda: pickle.loads(pickle.dumps(g)),
        "union_self": lambda: g | g,
        "inter_self": lambda: g & g,
        "union_empty": lambda: g | u.empty,
    }
    for k, f in trials.items():
        try:
            h = f()
            if not (h is g and h == g and hash(h) == hash(g) and list(h.names) == list(g.names)):
                bad.append(k)
        except Exception as e:  # noqa: BLE001
            bad.append(f"{k}:{_err_class(e)}")
    return bad


def observe(payload):
    """payload: {path, default, exhaustive: bool, subsets: [[names]], conform_names: bool, pairs: 'all'|int|0,
                 triples: int, nary: int, seed: int}"""
    rng = random.Random(payload.get("seed", 0))
    try:
        u = _load(payload.get("path"), payload.get("default", False))
    except Exception as e:  # noqa: BLE001
        return {"universe_error": _err_class(e), "detail": repr(e)[:500]}
    res = {"universe": describe(u), "version": u.version, "sorted_ok": True}
    dims = [d.name for d in u.dimensions if _kind(d) != "skypix"]
    res["dims"] = dims
    subsets = []
    if payload.get("exhaustive"):
        k = len(dims)
        if k > 16:
            return {"universe_error": "TooManyDimensions", "detail": str(k)}
        for m in range(1 << k):
            subsets.append([dims[i] for i in range(k) if m >> i & 1])
    subsets.extend(payload.get("subsets", []))
    table: dict[tuple, int] = {}
    tbl_groups = []
    groups = []

    def intern(g):
        key = tuple(g.names)
        if key not in table:
            table[key] = len(tbl_groups)
            tbl_groups.append(g)
        return table[key]

    light = bool(payload.get("light"))
    for s in subsets:
        try:
            g = u.conform(list(s))
        except Exception as e:  # noqa: BLE001
            groups.append({"in": s, "err": _err_class(e)})
            continue
        if light:
            intern(g)
            continue
        o = _observe_group(u, g)
        o["in"] = s
        o["err"] = None
        o["gid"] = intern(g)
        o["spell"] = _spellings(u, s, g, rng)
        # universe.sorted on names and on element objects, both directions
        try:
            srt = [e.name for e in u.sorted(set(s) | set(g.names))]
            srt2 = [e.name for e in u.sorted([u[n] for n in g.names], reverse=True)]
            if srt != o["names"] or srt2 != list(reversed(o["names"])):
                o["spell"].append("universe.sorted")
        except Exception as e:  # noqa: BLE001
            o["spell"].append(f"universe.sorted:{_err_class(e)}")
        groups.append(o)
    res["groups"] = groups
    # conform("name") for every element name
    conf = []
    if payload.get("conform_names"):
        for e in u.elements:
            try:
                g = u.conform(e.name)
                o = _observe_group(u, g)
                o["err"] = None
                o["same_as_minimal"] = g is e.minimal_group
            except Exception as ex:  # noqa: BLE001
                o = {"err": _err_class(ex)}
            o["in"] = e.name
            conf.append(o)
    res["conform"] = conf
    # pairs
    n0 = len(tbl_groups)
    pairs_spec = payload.get("pairs", 0)
    idx_pairs = []
    if pairs_spec == "all":
        k, n = payload.get("pair_slice") or (0, 1)
        idx_pairs = [(i, j) for i in range(n0) for j in range(n0) if (i * n0 + j) % n == k]
    elif pairs_spec:
        idx_pairs = [(rng.randrange(n0), rng.randrange(n0)) for _ in range(int(pairs_spec))] if n0 else []
    rows, extra = [], []
    for i, j in idx_pairs:
        a, b = tbl_groups[i], tbl_groups[j]
        try:
            un, it = a | b, a & b
            le, eq, dj = a <= b, a == b, a.isdisjoint(b)
            heq = hash(a) == hash(b)
            rows.append([i, j, intern(un), intern(it), bool(le), bool(eq), bool(heq), bool(dj)])
            incons = []
            if a.issubset(b) != le or b.issuperset(a) != le or (b >= a) != le:
                incons.append("issubset/<=/>=")
            if (a < b) != (le and not eq) or (b > a) != (a < b):
                incons.append("</>")
            if (a != b) == eq:
                incons.append("!=")
            if eq != (a is b):
                incons.append("==/is")
            if a.union(b) is not un or b.union(a) is not un or a.intersection(b) is not it or b.intersection(a) is not it:
                incons.append("commutative/method-vs-operator")
            if incons:
                extra.append([i, j, incons])
        except Exception as e:  # noqa: BLE001
            extra.append([i, j, [f"raised:{_err_class(e)}"]])
    res["pairs"] = rows
    res["pair_inconsistencies"] = extra[:50]
    # triples: n-ary forms against nested binary forms
    trows = []
    for _ in range(int(payload.get("triples", 0)) if n0 else 0):
        i, j, k = rng.randrange(n0), rng.randrange(n0), rng.randrange(n0)
        a, b, c = tbl_groups[i], tbl_groups[j], tbl_groups[k]
        try:
            trows.append([i, j, k, intern(a.union(b, c)), intern((a | b) | c), intern(a | (b | c)),
                          intern(a.intersection(b, c)), intern((a & b) & c), intern(a & (b & c)),
                          intern(a & (b | c)), intern((a & b) | (a & c)), intern(a | (a & b)), intern(a & (a | b))])
        except Exception as e:  # noqa: BLE001
            trows.append([i, j, k, f"raised:{_err_class(e)}"])
    res["triples"] = trows
    # n-ary union / intersection with 0..4 other operands (the methods as coded take *others), plus the comparisons
    # of the receiver with the first other operand
    nrows = []

    def nary_row(i, js):
        a, others = tbl_groups[i], [tbl_groups[j] for j in js]
        try:
            bools = []
            if others:
                b = others[0]
                bools = [bool(a == b), bool(a <= b), bool(a.issubset(b)), bool(a.isdisjoint(b)), hash(a) == hash(b)]
            nrows.append([i, js, intern(a.union(*others)), intern(a.intersection(*others)), bools])
        except Exception as e:  # noqa: BLE001
            nrows.append([i, js, f"raised:{_err_class(e)}"])
    # regression cases first: [[names of a], [[names of other] ...]]
    for a_names, others_names in payload.get("nary_cases", []):
        try:
            i = intern(u.conform(list(a_names)))
            js = [intern(u.conform(list(o))) for o in others_names]
        except Exception:  # noqa: BLE001  (a name this universe does not have)
            continue
        nary_row(i, js)
    for _ in range(int(payload.get("nary", 0)) if n0 else 0):
        i = rng.randrange(n0)
        js = [rng.randrange(n0) for _ in range(rng.choice([0, 1, 2, 2, 3, 3, 4]))]
        nary_row(i, js)
    res["nary"] = nrows
    res["table"] = [list(g.names) for g in tbl_groups]
    res["table_required"] = [list(g.required) for g in tbl_groups]
    res["n_primary"] = n0
    res["empty_ok"] = (len(u.empty) == 0 and u.conform([]) is u.empty)
    return res
