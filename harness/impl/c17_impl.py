"""C17 implementation drivers (run inside worker subprocesses, see common.run_worker).

Three drivers, all against the REAL code of /repo:

run_mgr_histories      DatastoreCacheManager objects driven directly: two managers on ONE cache directory, every
                       expiry mode / threshold, interference from "another process" (files deleted / written behind
                       the managers' back), under a VIRTUAL clock (the module's `datetime.now` and the `st_ctime`
                       seen by `CacheEntry.from_file` are shifted consistently, so ages of days cost nothing).
run_butler_histories   a real Butler whose FileDatastore root is NOT local (the `mem://` scheme of lsst.resources is
                       given a directory-backed implementation here, because no remote object store exists in the
                       sandbox and a local root never touches the cache), with the file cache enabled (two clients
                       sharing one cache directory) and with it disabled; put / get / remove histories.
run_registry_histories query / write interleavings on a real SQLite registry, executed twice on two identical
                       repositories: once inside `registry.caching_context()` and once without it.

Numbering shared with coq/Model/Cache.v: cache key = 4 * dataset + k, k = index into EXTS.
"""
from __future__ import annotations

import contextlib
import datetime as _dt
import os
import shutil
import time
import types
import uuid

from harness.impl import fixture

EXTS = [".yaml", ".json", ".pickle", ".txt"]
BASE = 1_700_000_000   # virtual epoch (seconds)


# ------------------------------------------------------------------------------------------------
# virtual clock for cache_manager.py
# ------------------------------------------------------------------------------------------------
class VClock:
    def __init__(self):
        self.v = 0
        self.table = {}   # path -> (real st_ctime_ns, st_ino, virtual ctime)

    def observe(self, path):
        st = os.stat(path)
        ent = self.table.get(path)
        if ent is None or ent[0] != st.st_ctime_ns or ent[1] != st.st_ino:
            ent = (st.st_ctime_ns, st.st_ino, self.v)
            self.table[path] = ent
        return st, ent[2]

    def stat(self, path, *a, **kw):
        st, v = self.observe(os.fspath(path))
        return types.SimpleNamespace(st_size=st.st_size, st_ctime=float(BASE + v), st_mtime=st.st_mtime, st_mode=st.st_mode)


def _install_clock(clock: VClock):
    import lsst.daf.butler.datastore.cache_manager as cm

    class _OsProxy:
        def __getattr__(self, name):
            return getattr(os, name)

        def stat(self, path, *a, **kw):
            return clock.stat(path, *a, **kw)

    class _FakeDateTime(_dt.datetime):
        @classmethod
        def now(cls, tz=None):
            return _dt.datetime.fromtimestamp(BASE + clock.v, tz)

    class _DtProxy:
        def __getattr__(self, name):
            return getattr(_dt, name)

        datetime = _FakeDateTime

    cm.os = _OsProxy()
    cm.datetime = _DtProxy()
    return cm


def _mgr_config(root, mode, thr):
    from lsst.daf.butler import Config
    from lsst.daf.butler.datastore.cache_manager import DatastoreCacheManagerConfig
    cfg = Config()
    c = {"root": root, "default": True, "cacheable": {"irrelevant": False}}
    if mode == "none":
        c["expiry"] = {"mode": None, "threshold": None}
    else:
        c["expiry"] = {"mode": mode, "threshold": thr}
    cfg["cached"] = c
    return DatastoreCacheManagerConfig(cfg)


def _key_of_name(name):
    stem, ext = name.split(".", 1)
    return (uuid.UUID(stem).int - 1) * 4 + EXTS.index("." + ext)


def _disk_listing(cdir, clock):
    out = []
    for fn in sorted(os.listdir(cdir)):
        p = os.path.join(cdir, fn)
        if os.path.isdir(p) or fn == "README.txt":
            continue
        try:
            st, v = clock.observe(p)
            out.append([_key_of_name(fn), st.st_size, v])
        except (ValueError, FileNotFoundError):
            out.append([-1, fn, 0])
    out.sort()
    return out


def _mgr_obs(m):
    ents = []
    for k, e in m._cache_entries.items():
        ents.append([_key_of_name(k), int(e.size), int(round(e.ctime.timestamp())) - BASE])
    ents.sort()
    return {"file_count": int(m.file_count), "cache_size": int(m.cache_size), "entries": ents}


def run_mgr_histories(payload):
    """payload {histories: [{cfg: [[mode, thr], [mode, thr]], ops: [...]}]}
    op = {"who": 0|1, "op": "move", "key": k, "size": n} | {"who", "op": "find", "key"} | {"who", "op": "remove", "refs": [..]}
       | {"who", "op": "scan"} | {"op": "tick", "dt": s} | {"op": "ext_delete", "key"} | {"op": "ext_create", "key", "size"}
    returns {results: [{steps: [{res, disk, mgr: [obsA, obsB]}]}]}"""
    from lsst.daf.butler import DataCoordinate, DatasetRef, DatasetType, DimensionUniverse
    from lsst.resources import ResourcePath

    clock = VClock()
    cm = _install_clock(clock)
    universe = DimensionUniverse()
    dtype = DatasetType("c17t", [], "StructuredDataDict", universe=universe)
    empty = DataCoordinate.make_empty(universe)

    def ref_of(r):
        return DatasetRef(dtype, empty, run="c17run", id=uuid.UUID(int=r + 1))

    results = []
    top = fixture.new_root("c17m")
    try:
        for hi, hist in enumerate(payload["histories"]):
            clock.v = 0
            clock.table.clear()
            cdir = os.path.join(top, f"cache{hi}")
            os.makedirs(cdir)
            with open(os.path.join(cdir, "README.txt"), "w") as f:   # a file the cache did not create: must be ignored
                f.write("not a cache file")
            tmp = os.path.join(top, f"tmp{hi}")
            os.makedirs(tmp)
            mgrs = [cm.DatastoreCacheManager(_mgr_config(cdir, mode, thr), universe) for mode, thr in hist["cfg"]]
            steps = []
            for oi, op in enumerate(hist["ops"]):
                res = None
                kind = op["op"]
                try:
                    if kind == "tick":
                        clock.v += max(0, int(op["dt"]))
                        time.sleep(0.012)
                    elif kind == "ext_delete":
                        p = os.path.join(cdir, f"{uuid.UUID(int=op['key'] // 4 + 1)}{EXTS[op['key'] % 4]}")
                        with contextlib.suppress(FileNotFoundError):
                            os.remove(p)
                    elif kind == "ext_create":
                        p = os.path.join(cdir, f"{uuid.UUID(int=op['key'] // 4 + 1)}{EXTS[op['key'] % 4]}")
                        with contextlib.suppress(FileNotFoundError):
                            os.remove(p)
                        with open(p, "wb") as f:
                            f.write(b"e" * op["size"])
                    else:
                        m = mgrs[op["who"]]
                        if kind == "move":
                            k = op["key"]
                            src = os.path.join(tmp, f"src{oi}{EXTS[k % 4]}")
                            with open(src, "wb") as f:
                                f.write(b"x" * op["size"])
                            loc = m.move_to_cache(ResourcePath(src), ref_of(k // 4))
                            res = "none" if loc is None else "cached"
                            with contextlib.suppress(FileNotFoundError):
                                os.remove(src)
                        elif kind == "find":
                            k = op["key"]
                            with m.find_in_cache(ref_of(k // 4), EXTS[k % 4]) as loc:
                                res = "notfound" if loc is None else ["found", os.path.getsize(loc.ospath)]
                        elif kind == "remove":
                            m.remove_from_cache([ref_of(r) for r in op["refs"]])
                        elif kind == "scan":
                            m.scan_cache()
                        else:
                            raise ValueError(kind)
                except Exception as e:  # noqa: BLE001
                    res = "E:" + type(e).__name__ + ":" + str(e)[:120]
                steps.append({"res": res, "disk": _disk_listing(cdir, clock), "mgr": [_mgr_obs(m) for m in mgrs],
                              "now": clock.v, "exempt": sorted(os.listdir(os.path.join(cdir, "exempt"))) if os.path.isdir(os.path.join(cdir, "exempt")) else []})
            results.append({"steps": steps})
        return {"results": results}
    finally:
        shutil.rmtree(top, ignore_errors=True)


# ------------------------------------------------------------------------------------------------
# a "remote" object store for FileDatastore: mem://<anything>/<path> backed by a directory
# ------------------------------------------------------------------------------------------------
_REMOTE_ROOT = {"dir": None, "reads": 0}


def _install_remote(directory):
    from lsst.resources import ResourcePath
    from lsst.resources.mem import InMemoryResourcePath as M
    _REMOTE_ROOT["dir"] = directory

    def _p(self):
        return os.path.join(_REMOTE_ROOT["dir"], self.netloc, self.path.lstrip("/"))

    def exists(self):
        return os.path.exists(_p(self))

    def size(self):
        if self.isdir():
            return 0
        return os.path.getsize(_p(self))

    def read(self, size=-1):
        _REMOTE_ROOT["reads"] += 1
        with open(_p(self), "rb") as f:
            return f.read(size)

    def write(self, data, overwrite=True):
        p = _p(self)
        if not overwrite and os.path.exists(p):
            raise FileExistsError(p)
        os.makedirs(os.path.dirname(p), exist_ok=True)
        with open(p + ".part", "wb") as f:
            f.write(data)
        os.replace(p + ".part", p)

    def remove(self):
        os.remove(_p(self))

    def mkdir(self):
        os.makedirs(_p(self), exist_ok=True)

    def transfer_from(self, src, transfer="copy", overwrite=False, transaction=None, multithreaded=True):
        if transfer not in ("copy", "move", "auto"):
            raise ValueError(f"transfer mode {transfer} not supported by the test object store")
        if not overwrite and self.exists():
            raise FileExistsError(str(self))
        write(self, src.read(), overwrite=True)
        if transfer == "move":
            src.remove()

    @contextlib.contextmanager
    def _as_local(self, multithreaded=True, tmpdir=None):
        with ResourcePath.temporary_uri(prefix=tmpdir, suffix=self.getExtension(), delete=True) as tmp:
            tmp.write(read(self))
            yield tmp

    def get_info(self):
        from lsst.resources._resourcePath import ResourceInfo
        return ResourceInfo(uri=str(self), is_file=not self.isdir(), size=size(self), last_modified=None, checksums={})

    for name, fn in dict(exists=exists, size=size, read=read, write=write, remove=remove, mkdir=mkdir,
                         transfer_from=transfer_from, _as_local=_as_local, get_info=get_info).items():
        setattr(M, name, fn)


def _butler_config(cache_dir, mode, thr):
    """extra datastore configuration: remote root + cache section (None = cache disabled)"""
    extra = {("datastore", "root"): "mem://store/"}
    if mode == "disabled":
        extra[("datastore", "cached")] = {"root": cache_dir, "default": True, "cacheable": {"irrelevant": False},
                                          "expiry": {"mode": "disabled", "threshold": 0}}
    else:
        extra[("datastore", "cached")] = {"root": cache_dir, "default": True, "cacheable": {"irrelevant": False},
                                          "expiry": {"mode": None if mode == "none" else mode, "threshold": None if mode == "none" else thr}}
    return extra


def _cache_listing(cdir):
    out = []
    if not os.path.isdir(cdir):
        return out
    for fn in sorted(os.listdir(cdir)):
        p = os.path.join(cdir, fn)
        if os.path.isdir(p):
            continue
        out.append([fn, os.path.getsize(p)])
    return out


def _one_butler_history(hist, top, tag, mode, thr):
    """Run one history with the given cache mode; returns the list of step observations."""
    from lsst.daf.butler import Butler, Config

    root = os.path.join(top, f"repo-{tag}")
    cdir = os.path.join(top, f"cache-{tag}")
    os.makedirs(cdir, exist_ok=True)
    cfg = Config()
    cfg["datastore", "cls"] = "lsst.daf.butler.datastores.fileDatastore.FileDatastore"
    cfg["datastore", "root"] = f"mem://store-{tag}/"
    fmt = "lsst.daf.butler.formatters.yaml.YamlFormatter"
    cfg["datastore", "formatters"] = {"StructuredDataDict": fmt, "StructuredDataList": fmt}
    for k, v in _butler_config(cdir, mode, thr).items():
        if k == ("datastore", "root"):
            continue
        cfg[k] = v
    Butler.makeRepo(root, config=cfg, forceConfigRoot=False)
    clients = [Butler.from_config(root, writeable=True), Butler.from_config(root, writeable=True)]
    b0 = clients[0]
    fixture.add_instrument(b0, "Cam", detectors=tuple(range(8)))
    fixture.add_dataset_type(b0, "c17d")
    b0.registry.registerRun("c17run")
    for c in clients:
        c.registry.refresh()
    refs = {}
    steps = []
    try:
        for op in hist["ops"]:
            b = clients[op.get("who", 0)]
            ds = b._datastore
            ob = {}
            reads0 = _REMOTE_ROOT["reads"]
            try:
                if op["op"] == "put":
                    d = op["ds"]
                    payload = {"ds": d, "pad": "p" * op.get("pad", 0)}
                    refs[d] = b.put(payload, "c17d", instrument="Cam", detector=d, run="c17run")
                    ob["res"] = "ok"
                elif op["op"] == "get":
                    d = op["ds"]
                    if d in refs:
                        val = b.get(refs[d])
                    else:
                        val = b.get("c17d", instrument="Cam", detector=d, collections="c17run")
                    ob["res"] = ["value", val.get("ds"), len(val.get("pad", ""))]
                elif op["op"] == "remove":
                    d = op["ds"]
                    b.pruneDatasets([refs[d]], purge=True, unstore=True, disassociate=True)
                    ob["res"] = "ok"
                elif op["op"] == "exists":
                    d = op["ds"]
                    ob["res"] = ["exists", bool(b.stored(refs[d]))]
                elif op["op"] == "cache_wipe":       # another process cleans the cache directory
                    for fn in os.listdir(cdir):
                        p = os.path.join(cdir, fn)
                        if os.path.isfile(p):
                            os.remove(p)
                    ob["res"] = "ok"
                else:
                    raise ValueError(op["op"])
            except Exception as e:  # noqa: BLE001
                ob["res"] = "E:" + fixture.err_class(e)
                ob["msg"] = f"{type(e).__name__}: {str(e)[:160]}"
            ob["remote_reads"] = _REMOTE_ROOT["reads"] - reads0
            ob["cache"] = _cache_listing(cdir)
            ob["mgr"] = []
            for c in clients:
                cmgr = c._datastore.cacheManager
                ob["mgr"].append({"file_count": int(cmgr.file_count), "cache_size": int(cmgr.cache_size),
                                  "entries": sorted([k, int(e.size)] for k, e in cmgr._cache_entries.items())
                                  if hasattr(cmgr, "_cache_entries") else []})
            ob["ids"] = {str(d): str(r.id) for d, r in refs.items()}
            steps.append(ob)
    finally:
        for c in clients:
            with contextlib.suppress(Exception):
                c.close()
    return steps


def run_butler_histories(payload):
    """payload {histories: [{mode, thr, ops: [{who, op: put|get|remove|exists|cache_wipe, ds, pad}]}]}
    returns {results: [{cached: steps, uncached: steps}]}"""
    top = fixture.new_root("c17b")
    _install_remote(os.path.join(top, "remote"))
    results = []
    try:
        for hi, hist in enumerate(payload["histories"]):
            cached = _one_butler_history(hist, top, f"c{hi}", hist["mode"], hist["thr"])
            uncached = _one_butler_history(hist, top, f"u{hi}", "disabled", 0)
            results.append({"cached": cached, "uncached": uncached})
        return {"results": results}
    finally:
        shutil.rmtree(top, ignore_errors=True)


# ------------------------------------------------------------------------------------------------
# registry caches: the same history inside caching_context() and without it
# ------------------------------------------------------------------------------------------------
NTYPES = 3
RUNS = (0, 1, 2, 3, 7, 8, 9)       # "r<n>"   RUN
CHAINS = (4, 5, 10, 11)            # "ch<n>"  CHAINED
TAGGED = (6, 12)                   # "tag<n>" TAGGED
FIXTURE = (0, 1, 2, 3, 4, 5, 6)    # registered, in this order, before the history starts (keys 1..7 on SQLite)


def _cname(c):
    return f"r{c}" if c in RUNS else (f"ch{c}" if c in CHAINS else f"tag{c}")


def _pattern(pat):
    import re
    return {"all": "*", "dots": ..., "r": "r*", "ch": "ch*", "tag": "tag*", "re_r": re.compile("r.*"), "re_all": re.compile(".*")}[pat]


def _ctype(c):
    from lsst.daf.butler import CollectionType
    return CollectionType.RUN if c in RUNS else (CollectionType.CHAINED if c in CHAINS else CollectionType.TAGGED)


def _one_registry_history(hist, use_ctx):
    from lsst.daf.butler import CollectionType
    root, b = fixture.make_repo()
    steps = []
    try:
        fixture.add_instrument(b, "Cam", detectors=tuple(range(40)))
        for t in range(NTYPES):
            fixture.add_dataset_type(b, f"c17t{t}")
        reg = b.registry
        for c in FIXTURE:
            reg.registerCollection(_cname(c), _ctype(c))
        for c, kids in hist.get("init_chains", []):
            reg.setCollectionChain(_cname(c), [_cname(k) for k in kids])
        ids = {}
        last_ref = [None]
        stack = contextlib.ExitStack()
        in_ctx = False
        with stack:
            for op in hist["ops"]:
                ob = {}
                try:
                    k = op["op"]
                    if k == "enter":
                        if use_ctx and not in_ctx:
                            stack.enter_context(reg.caching_context())
                            in_ctx = True
                        ob["res"] = []
                    elif k == "exit":
                        if in_ctx:
                            stack.close()
                            in_ctx = False
                        ob["res"] = []
                    elif k == "setchain":
                        reg.setCollectionChain(_cname(op["c"]), [_cname(x) for x in op["kids"]])
                        ob["res"] = []
                    elif k == "put":
                        (ref,) = reg.insertDatasets(f"c17t{op['ty']}", [{"instrument": "Cam", "detector": op["id"]}], run=_cname(op["run"]))
                        ids[ref.id] = op["id"]
                        last_ref[0] = ref
                        ob["res"] = []
                    elif k == "qsummary":
                        s = reg.getCollectionSummary(_cname(op["c"]))
                        ob["res"] = sorted(int(d.name[4:]) for d in s.dataset_types)
                    elif k == "qdata":
                        rs = b.query_datasets(f"c17t{op['ty']}", collections=_cname(op["c"]), find_first=False, explain=False, limit=None)
                        ob["res"] = sorted(ids.get(r.id, -1) for r in rs)
                    elif k == "qlegacy":
                        rs = reg.queryDatasets(f"c17t{op['ty']}", collections=_cname(op["c"]))
                        ob["res"] = sorted(ids.get(r.id, -1) for r in rs)
                    elif k == "qfind":
                        r = b.find_dataset(f"c17t{op['ty']}", instrument="Cam", detector=op["id"], collections=_cname(op["c"]))
                        ob["res"] = [] if r is None else [ids.get(r.id, -1)]
                    elif k == "qchain":
                        ob["res"] = [int("".join(ch for ch in n if ch.isdigit())) for n in reg.getCollectionChain(_cname(op["c"]))]
                    elif k == "qcolls":
                        if "pat" not in op:      # older corpus form
                            names = reg.queryCollections("*", flattenChains=op.get("flatten", False))
                        elif op.get("api") == "butler":
                            names = b.collections.query(_pattern(op["pat"]))
                        else:
                            names = reg.queryCollections(_pattern(op["pat"]))
                        ob["res"] = sorted(int("".join(ch for ch in n if ch.isdigit())) for n in names)
                    elif k == "qdataglob":
                        if op.get("api") == "new":
                            rs = b.query_datasets(f"c17t{op['ty']}", collections=_pattern(op["pat"]), find_first=False, explain=False, limit=None)
                        else:
                            rs = reg.queryDatasets(f"c17t{op['ty']}", collections=_pattern(op["pat"]))
                        ob["res"] = sorted(ids.get(r.id, -1) for r in rs)
                    elif k == "assoc":           # associate into a RUN / CHAINED / unknown collection: must be refused
                        reg.associate(_cname(op["c"]), [last_ref[0]])
                        ob["res"] = []
                    elif k == "register_conflict":   # an existing name with another type: silently keeps the collection
                        from lsst.daf.butler import CollectionType
                        c = op["c"]
                        reg.registerCollection(_cname(c), CollectionType.TAGGED if c not in TAGGED else CollectionType.RUN)
                        ob["res"] = []
                    elif k == "tag":
                        want = [r for r in reg.queryDatasets(f"c17t{op['ty']}", collections=_cname(op["run"]))]
                        reg.associate(_cname(6), want)
                        ob["res"] = []
                    elif k == "register":
                        reg.registerCollection(_cname(op["c"]), _ctype(op["c"]))
                        ob["res"] = []
                    elif k == "remove":
                        reg.removeCollection(_cname(op["c"]))
                        ob["res"] = []
                    else:
                        raise ValueError(k)
                except Exception as e:  # noqa: BLE001
                    ob["res"] = "E:" + fixture.err_class(e)
                    ob["msg"] = f"{type(e).__name__}: {str(e)[:160]}"
                steps.append(ob)
    finally:
        with contextlib.suppress(Exception):
            b.close()
        fixture.cleanup(root)
    return steps


def run_registry_histories(payload):
    """payload {histories: [{init_chains: [[c, kids]], ops: [...]}]} -> {results: [{cached: steps, uncached: steps}]}"""
    out = []
    for hist in payload["histories"]:
        out.append({"cached": _one_registry_history(hist, True), "uncached": _one_registry_history(hist, False)})
    return {"results": out}


# ------------------------------------------------------------------------------------------------
# Butler-level histories WITH a model (coq/Model/CacheButler.v): fixed dataset ids, single-file and disassembled
# (multi-file) datasets, two clients with their own expiry configuration on ONE cache directory, virtual clock
# ------------------------------------------------------------------------------------------------
COMPS = ["a", "b", "c"]          # component name -> index 1..3 in the cache key 4 * dataset + index (0 = not a component)
_XTYPES = {1: "c17x1", 2: "c17x2", 3: "c17x3"}


def _c17_delegate_class():
    from lsst.daf.butler import StorageClassDelegate
    from lsst.daf.butler.datastore.generic_base import DatasetComponent  # noqa: F401

    return StorageClassDelegate


try:
    from lsst.daf.butler import StorageClassDelegate as _SCD

    class C17Delegate(_SCD):
        """dict-of-dicts composite; components are written in the FIXED order a, b, c (the generic implementation walks
        a `set`, whose order changes from process to process)"""

        def getComponent(self, composite, componentName):
            return composite[componentName]

        def assemble(self, components, pytype=None):
            return {k: components[k] for k in sorted(components)}

        def disassemble(self, composite, subset=None, override=None):
            from lsst.daf.butler import DatasetComponent
            out = {}
            for name in sorted(self.storageClass.components):
                out[name] = DatasetComponent(name, self.storageClass.components[name], composite[name])
            return out
except Exception:  # noqa: BLE001   (import of the package failed: the worker will report it on first use)
    C17Delegate = None


def _register_storage_classes():
    from lsst.daf.butler import StorageClass, StorageClassFactory
    f = StorageClassFactory()
    sd = f.getStorageClass("StructuredDataDict")
    for n in (2, 3):
        name = f"C17Comp{n}"
        if name not in f:
            f.registerStorageClass(StorageClass(name, pytype=dict, components={c: sd for c in COMPS[:n]},
                                                delegate="harness.impl.c17_impl.C17Delegate"))


def _xkey_of_name(name):
    stem, _ext = name.split(".", 1)
    parts = stem.split("_")
    d = uuid.UUID(parts[0]).int - 1
    return 4 * d + (COMPS.index(parts[1]) + 1 if len(parts) > 1 else 0)


def _xlisting(cdir, clock=None):
    out = []
    for fn in sorted(os.listdir(cdir)):
        p = os.path.join(cdir, fn)
        if os.path.isdir(p):
            continue
        try:
            if clock is not None:
                clock.observe(p)
            out.append([_xkey_of_name(fn), os.path.getsize(p)])
        except (ValueError, FileNotFoundError):
            out.append([-1, 0])
    out.sort()
    return out


def _tick_before_cache_calls(cmgr, clock, cdir):
    """One (virtual) second passes before every move_to_cache / find_in_cache, as in coq/Model/CacheButler.v `cstep`: no two
    cache files ever carry the same ctime (files of equal ctime are expired in the order of a directory walk)."""
    orig_move, orig_find = cmgr.move_to_cache, cmgr.find_in_cache

    def move_to_cache(uri, ref):
        _xlisting(cdir, clock)      # stamp what changed so far with the time at which it changed
        clock.v += 1
        time.sleep(0.012)
        return orig_move(uri, ref)

    def find_in_cache(ref, extension):
        _xlisting(cdir, clock)
        clock.v += 1
        time.sleep(0.012)
        return orig_find(ref, extension)

    cmgr.move_to_cache = move_to_cache
    cmgr.find_in_cache = find_in_cache


def _one_butlerx_history(hist, top, tag, cfgs, clock):
    from lsst.daf.butler import Butler, Config, DatasetRef

    root = os.path.join(top, f"repo-{tag}")
    cdir = os.path.join(top, f"cache-{tag}")
    os.makedirs(cdir, exist_ok=True)
    cfg = Config()
    cfg["datastore", "cls"] = "lsst.daf.butler.datastores.fileDatastore.FileDatastore"
    cfg["datastore", "root"] = f"mem://store-{tag}/"
    fmt = "lsst.daf.butler.formatters.yaml.YamlFormatter"
    cfg["datastore", "formatters"] = {"StructuredDataDict": fmt, "StructuredDataList": fmt}
    cfg["datastore", "composites"] = {"default": False, "disassembled": {"C17Comp2": True, "C17Comp3": True}}
    cfg["datastore", "cached"] = _butler_config(cdir, *cfgs[0])[("datastore", "cached")]
    Butler.makeRepo(root, config=cfg, forceConfigRoot=False)
    clients = [Butler.from_config(root, writeable=True)]
    # the second client: same repository, same cache directory, its own expiry configuration
    cfg_b = Config(os.path.join(root, "butler.yaml"))
    cfg_b["datastore", "cached"] = _butler_config(cdir, *cfgs[1])[("datastore", "cached")]
    cfg_b["root"] = root
    clients.append(Butler.from_config(cfg_b, writeable=True))
    b0 = clients[0]
    for c in clients:
        _tick_before_cache_calls(c._datastore.cacheManager, clock, cdir)
    fixture.add_instrument(b0, "Cam", detectors=tuple(range(8)))
    fixture.add_dataset_type(b0, _XTYPES[1])
    for n in (2, 3):
        fixture.add_dataset_type(b0, _XTYPES[n], storage_class=f"C17Comp{n}")
    b0.registry.registerRun("c17run")
    for c in clients:
        c.registry.refresh()
    dids = {d: b0.registry.expandDataId(instrument="Cam", detector=d) for d in range(8)}
    dtypes = {n: b0.get_dataset_type(_XTYPES[n]) for n in (1, 2, 3)}
    nfiles = {}           # dataset -> number of files of its current / last incarnation
    sizes = {}            # (dataset, component index, pad) -> size of the file written with that content
    steps = []

    def ref_of(d, n):
        return DatasetRef(dtypes[n], dids[d], run="c17run", id=uuid.UUID(int=d + 1))

    try:
        for op in hist["ops"]:
            ob = {}
            k = op["op"]
            reads0 = _REMOTE_ROOT["reads"]
            try:
                if k == "put":
                    d, pads = op["ds"], op["pads"]
                    n = len(pads)
                    fill = op.get("fill", "p")
                    if n == 1:
                        obj = {"ds": d, "pad": fill * pads[0]}
                    else:
                        obj = {COMPS[i]: {"ds": d, "pad": fill * pads[i]} for i in range(n)}
                    clients[op["who"]].put(obj, ref_of(d, n))
                    nfiles[d] = n
                    ob["res"] = "ok"
                    # the sizes of the files just written to the remote store: a file's size stands for its content
                    uris = clients[op["who"]].getURIs(ref_of(d, n))
                    if n == 1:
                        files = [[0, int(uris.primaryURI.size())]]
                    else:
                        files = [[i + 1, int(uris.componentURIs[COMPS[i]].size())] for i in range(n)]
                    for (ci_, sz), pad in zip(files, pads):
                        sizes[(d, ci_, fill * pad)] = sz if fill == "p" else sz + 1000     # another fill = another content id
                    ob["files"] = files
                elif k == "get":
                    d = op["ds"]
                    n = nfiles.get(d, 1)
                    val = clients[op["who"]].get(ref_of(d, n))
                    parts = [[0, val]] if n == 1 else [[i + 1, val[COMPS[i]]] for i in range(n)]
                    # content reported as the size of the file that was written with this content (-1: never written)
                    ob["res"] = ["value", [[4 * d + ci_, sizes.get((d, ci_, v.get("pad", "")), -1) if v.get("ds") == d else -2]
                                           for ci_, v in parts]]
                elif k == "remove":
                    d = op["ds"]
                    clients[op["who"]].pruneDatasets([ref_of(d, nfiles.get(d, 1))], purge=True, unstore=True, disassociate=True)
                    ob["res"] = "ok"
                elif k == "tick":
                    clock.v += max(0, int(op["dt"]))
                    time.sleep(0.012)
                    ob["res"] = "ok"
                elif k == "ext_delete":
                    key = op["key"]
                    comp = "" if key % 4 == 0 else "_" + COMPS[key % 4 - 1]
                    with contextlib.suppress(FileNotFoundError):
                        os.remove(os.path.join(cdir, f"{uuid.UUID(int=key // 4 + 1)}{comp}.yaml"))
                    ob["res"] = "ok"
                elif k == "cache_wipe":
                    for fn in os.listdir(cdir):
                        p = os.path.join(cdir, fn)
                        if os.path.isfile(p):
                            os.remove(p)
                    ob["res"] = "ok"
                else:
                    raise ValueError(k)
            except Exception as e:  # noqa: BLE001
                ob["res"] = "E:" + type(e).__name__
                ob["msg"] = f"{type(e).__name__}: {str(e)[:160]}"
            ob["remote_reads"] = _REMOTE_ROOT["reads"] - reads0
            ob["cache"] = _xlisting(cdir, clock)
            ob["mgr"] = []
            for c in clients:
                cmgr = c._datastore.cacheManager
                ents = sorted([_xkey_of_name(kk), int(e.size)] for kk, e in cmgr._cache_entries.items()) if hasattr(cmgr, "_cache_entries") else []
                ob["mgr"].append({"file_count": int(cmgr.file_count), "cache_size": int(cmgr.cache_size), "entries": ents})
            ob["exempt"] = sorted(os.listdir(os.path.join(cdir, "exempt"))) if os.path.isdir(os.path.join(cdir, "exempt")) else []
            steps.append(ob)
    finally:
        for c in clients:
            with contextlib.suppress(Exception):
                c.close()
    return steps


def run_butlerx_histories(payload):
    """payload {histories: [{cfg: [[mode, thr], [mode, thr]], ops: [...]}]}
    op = {who, op: put, ds, pads: [p] | [pa, pb] | [pa, pb, pc]} | {who, op: get|remove, ds} | {op: tick, dt}
       | {op: ext_delete, key} | {op: cache_wipe}
    returns {results: [{cached: steps, uncached: steps}]}; dataset d always has the id UUID(int=d+1), so a dataset removed
    and put again keeps its cache file names"""
    top = fixture.new_root("c17x")
    _install_remote(os.path.join(top, "remote"))
    _register_storage_classes()
    clock = VClock()
    _install_clock(clock)
    results = []
    try:
        for hi, hist in enumerate(payload["histories"]):
            clock.v = 0
            clock.table.clear()
            cached = _one_butlerx_history(hist, top, f"c{hi}", hist["cfg"], clock)
            clock.v = 0
            clock.table.clear()
            uncached = _one_butlerx_history(hist, top, f"u{hi}", [["disabled", 0], ["disabled", 0]], clock)
            results.append({"cached": cached, "uncached": uncached})
        return {"results": results}
    finally:
        shutil.rmtree(top, ignore_errors=True)
