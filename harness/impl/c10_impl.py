"""C10 implementation driver: replay removal histories on a REAL Butler (SQLite registry + POSIX file datastore) and
record, after every step, the outcome class and what every existence / query interface, the root listing and the
raw datastore-bridge tables report for EVERY dataset id of the universe and EVERY collection.

Numeric ids <-> real names (kept here, never sent to the model):
  collection n -> "c<n>"
  key k        -> dataset type "dt<k // NDATA>" (dimensions instrument, detector; isCalibration) , data id
                  {instrument "I", detector k % NDATA}
  dataset id n -> uuid5(NS, n)      (the harness chooses ids; Butler.put(obj, DatasetRef(..., id=uuid)))
  artifact     -> the pair (run, key) of the dataset it was written for (path recorded at put time)

Ops (JSON lists):
  ["RegColl", c, kind]                 kind in RUN | TAGGED | CALIB | CHAIN
  ["SetChain", c, [children]]
  ["Put", d, run, key]                 Butler.put(payload, DatasetRef(type, dataId, run, id))
  ["Tag", c, [d...]]                   registry.associate
  ["Certify", c, d, b, e]              registry.certify(c, [ref], Timespan(b, e))   (small integer "days")
  ["Prune", [d...], disassociate, unstore, purge, [tags]]     Butler.pruneDatasets
  ["RemoveRuns", [runs], unstore]      Butler.removeRuns
  ["ExtDelete", run, key]              os.remove of the artifact written for (run, key) -- outside the Butler
  ["Trash", [d...]]                    butler._datastore.trash(refs)        (first half of an unstore)
  ["EmptyTrash"]                       butler._datastore.emptyTrash()
  ["RegRemove", [d...]]                registry.removeDatasets(refs)        (must refuse when a datastore holds one)
  ["Trash1", d]                        butler._datastore.trash(ref)         (a SINGLE ref: another code path, artifact checked first)
  ["Xfer", d, run, key]                Butler.transfer_from(source_butler, [ref], transfer="copy") from a SECOND repository in which the
                                       dataset (same id, run, type, data ID) is put first; registers the run in the target when missing;
                                       datastore records are written in REPLACE mode, the location row by bridge.ensure
  ["Ingest", d1, d2, run, key]         Butler.ingest(FileDataset(path, refs=[ref1, ref2]), transfer="copy"): ONE file for two
                                       datasets of the same run and dataset type; ref2 has the sibling key sib(key)
"""
from __future__ import annotations

import os
import sqlite3
import uuid

from harness.impl import fixture

NTYPE, NDATA = 2, 3
NS = uuid.UUID("5a0c6b1e-0000-4000-8000-00000000c010")
KINDS = {"RUN": 1, "TAGGED": 2, "CALIB": 4, "CHAIN": 3}


def cname(n):
    return f"c{n}"


def tname(k):
    return f"dt{k // NDATA}"


def did(k):
    return {"instrument": "I", "detector": k % NDATA}


def sib(k):
    """The other data ID of the same dataset type used for the second ref of a two-ref ingest (Model/Removal.v `sib`)."""
    return NDATA * (k // NDATA) + (k + 1) % NDATA


class Driver:
    def __init__(self, ncoll, nds):
        self.ncoll, self.nds = ncoll, nds
        self.root, self.butler = fixture.make_repo(fixture.new_root("c10"))
        self.reg = self.butler.registry
        self.sql = self.butler._registry
        fixture.add_instrument(self.butler, name="I", detectors=range(NDATA), filters=())
        from lsst.daf.butler import DatasetType
        self.dtypes = {}
        for t in range(NTYPE):
            dt = DatasetType(f"dt{t}", dimensions=["instrument", "detector"], storageClass="StructuredDataDict",
                             universe=self.butler.dimensions, isCalibration=True)
            self.reg.registerDatasetType(dt)
            self.dtypes[t] = dt
        self.uuid_of = {n: uuid.uuid5(NS, str(n)) for n in range(nds)}
        self.n_of = {u: n for n, u in self.uuid_of.items()}
        self.def_of: dict[int, tuple] = {}        # dataset id -> (run, key) of the LAST put attempt that named it
        self.path_of: dict[str, tuple] = {}       # relative artifact path -> (run, key)
        self.dbfile = f"{self.root}/gen3.sqlite3"
        self._dc: dict = {}
        self.carried: dict[int, object] = {}      # dataset id -> ref WITH datastore records, taken right after its put
        self.src = None                            # (root, butler) of the source repository of Xfer, created on first use

    # -- refs -----------------------------------------------------------------------------
    def ref(self, d, run=None, key=None):
        from lsst.daf.butler import DataCoordinate, DatasetRef
        if run is None:
            run, key = self.def_of.get(d, (0, 0))
        dt = self.dtypes[key // NDATA]
        if key not in self._dc:
            self._dc[key] = self.reg.expandDataId(did(key), dimensions=dt.dimensions)
        dc = self._dc[key]
        return DatasetRef(dt, dc, run=cname(run), id=self.uuid_of[d])

    def live_ref(self, d):
        """The ref as the registry has it when it has it, else the last definition used for d."""
        r = self.sql.getDataset(self.uuid_of[d])
        return r if r is not None else self.ref(d)

    # -- ops ------------------------------------------------------------------------------
    def apply(self, op):
        from lsst.daf.butler import CollectionType, Timespan
        import astropy.time
        k = op[0]
        b = self.butler
        if k == "RegColl":
            ty = {"RUN": CollectionType.RUN, "TAGGED": CollectionType.TAGGED, "CALIB": CollectionType.CALIBRATION,
                  "CHAIN": CollectionType.CHAINED}[op[2]]
            self.reg.registerCollection(cname(op[1]), ty)
            return "Ok"
        if k == "SetChain":
            self.reg.setCollectionChain(cname(op[1]), [cname(c) for c in op[2]])
            return "Ok"
        if k == "Put":
            _, d, run, key = op
            ref = self.ref(d, run, key)
            if self.sql.getDataset(self.uuid_of[d]) is None:
                self.def_of[d] = (run, key)     # the id is free: this is the definition used for later probes of d
            b.put({"d": d, "ds": [d] + self.sharers(run, key), "key": key, "run": run}, ref)
            try:
                cr = b.get_dataset(self.uuid_of[d], datastore_records=True)
                if cr is not None and cr._datastore_records:
                    self.carried[d] = cr
            except Exception:  # noqa: BLE001
                pass
            try:
                uri = b.getURI(ref)
                rel = os.path.relpath(uri.ospath, self.root)
                self.path_of[rel] = (run, key)
            except Exception:  # noqa: BLE001
                pass
            return "Ok"
        if k == "Tag":
            self.reg.associate(cname(op[1]), [self.live_ref(d) for d in op[2]])
            return "Ok"
        if k == "Certify":
            _, c, d, bb, ee = op
            t = lambda n: astropy.time.Time(f"2020-01-{1 + n:02d}T00:00:00", scale="tai")  # noqa: E731
            self.reg.certify(cname(c), [self.live_ref(d)], Timespan(t(bb), t(ee)))
            return "Ok"
        if k == "Prune":
            _, ds, disassociate, unstore, purge, tags = op
            b.pruneDatasets([self.live_ref(d) for d in ds], disassociate=bool(disassociate), unstore=bool(unstore),
                            purge=bool(purge), tags=[cname(c) for c in tags])
            return "Ok"
        if k == "RemoveRuns":
            b.removeRuns([cname(c) for c in op[1]], unstore=bool(op[2]))
            return "Ok"
        if k == "ExtDelete":
            _, run, key = op
            for rel, rk in self.path_of.items():
                if rk == (run, key) and os.path.exists(os.path.join(self.root, rel)):
                    os.remove(os.path.join(self.root, rel))
            return "Ok"
        if k == "Trash":
            b._datastore.trash([self.live_ref(d) for d in op[1]])
            return "Ok"
        if k == "EmptyTrash":
            b._datastore.emptyTrash()
            return "Ok"
        if k == "RegRemove":
            self.reg.removeDatasets([self.live_ref(d) for d in op[1]])
            return "Ok"
        if k == "Trash1":
            b._datastore.trash(self.live_ref(op[1]))
            return "Ok"
        if k == "Xfer":
            _, d, run, key = op
            sref = self.source_dataset(d, run, key)
            if self.sql.getDataset(self.uuid_of[d]) is None:
                self.def_of[d] = (run, key)
            b.transfer_from(self.src[1], [sref], transfer="copy")
            try:
                cr = b.get_dataset(self.uuid_of[d], datastore_records=True)
                if cr is not None and cr._datastore_records:
                    self.carried[d] = cr
            except Exception:  # noqa: BLE001
                pass
            try:
                rel = os.path.relpath(b.getURI(self.ref(d, run, key)).ospath, self.root)
                self.path_of[rel] = (run, key)
            except Exception:  # noqa: BLE001
                pass
            return "Ok"
        if k == "Ingest":
            import json
            import tempfile
            from lsst.daf.butler import FileDataset
            _, d1, d2, run, key = op
            key2 = sib(key)
            r1, r2 = self.ref(d1, run, key), self.ref(d2, run, key2)
            for d, kk in ((d1, key), (d2, key2)):
                if self.sql.getDataset(self.uuid_of[d]) is None:
                    self.def_of[d] = (run, kk)
            fd, path = tempfile.mkstemp(suffix=".yaml", prefix="ingest_", dir=os.path.dirname(self.root))
            try:
                os.write(fd, json.dumps({"d": d1, "ds": [d1, d2] + self.sharers(run, key), "key": key, "run": run}).encode())
                os.close(fd)
                b.ingest(FileDataset(path=path, refs=[r1, r2]), transfer="copy")
            finally:
                os.remove(path)
            for d in (d1, d2):
                try:
                    cr = b.get_dataset(self.uuid_of[d], datastore_records=True)
                    if cr is not None and cr._datastore_records:
                        self.carried[d] = cr
                except Exception:  # noqa: BLE001
                    pass
            try:
                rel = os.path.relpath(b.getURI(r1).ospath, self.root)
                self.path_of[rel] = (run, key)
            except Exception:  # noqa: BLE001
                pass
            return "Ok"
        raise ValueError(f"unknown op {op}")

    def source_dataset(self, d, run, key):
        """Make the source repository hold dataset d with the definition (run, key) -- whatever it held before -- and return its ref."""
        from lsst.daf.butler import CollectionType
        if self.src is None:
            root, sb = fixture.make_repo(fixture.new_root("c10src"))
            fixture.add_instrument(sb, name="I", detectors=range(NDATA), filters=())
            for dt in self.dtypes.values():
                sb.registry.registerDatasetType(dt)
            self.src = (root, sb)
        sb = self.src[1]
        u = self.uuid_of[d]
        old = sb.get_dataset(u)
        if old is not None:
            sb.pruneDatasets([old], purge=True, unstore=True, disassociate=True)
        sb.registry.registerCollection(cname(run), CollectionType.RUN)
        ref = self.ref(d, run, key)
        try:
            other = sb.find_dataset(ref.datasetType, ref.dataId, collections=[cname(run)])
        except Exception:  # noqa: BLE001
            other = None
        if other is not None:
            sb.pruneDatasets([other], purge=True, unstore=True, disassociate=True)
        sb.put({"d": d, "ds": [d] + self.sharers(run, key), "key": key, "run": run}, ref)
        return sb.get_dataset(u)

    def sharers(self, run, key):
        """Ids whose datastore records name the artifact written for (run, key): a put / ingest that rewrites the file keeps
        the payload valid for them (the harness' notion of 'readable' is 'get returns a payload written for this id')."""
        rels = [rel for rel, rk in self.path_of.items() if rk == (run, key)]
        if not rels:
            return []
        con = sqlite3.connect(f"file:{self.dbfile}?mode=ro", uri=True, timeout=30)
        try:
            out = []
            for rel in rels:
                for (i,) in con.execute("select dataset_id from file_datastore_records where path = ?", (rel,)):
                    try:
                        u = uuid.UUID(bytes=i) if isinstance(i, bytes) else uuid.UUID(str(i))
                    except Exception:  # noqa: BLE001
                        continue
                    if u in self.n_of:
                        out.append(self.n_of[u])
            return sorted(set(out))
        finally:
            con.close()

    def step(self, op):
        try:
            return self.apply(op)
        except Exception as e:  # noqa: BLE001
            c = fixture.err_class(e)
            return "Err:" + c

    # -- observation ----------------------------------------------------------------------
    def observe(self, full=True):
        from lsst.daf.butler import DatasetExistence as DE
        obs = {"probe_errors": {}}
        b, reg = self.butler, self.reg

        def perr(kind, e):
            key = f"{kind}:{fixture.err_class(e)}"
            obs["probe_errors"][key] = obs["probe_errors"].get(key, 0) + 1

        def flags(x):
            v = x.value if hasattr(x, "value") else int(x)
            return [int(bool(v & DE.RECORDED.value)), int(bool(v & DE.DATASTORE.value)), int(bool(v & DE._ARTIFACT.value)),
                    int(bool(v & DE._ASSUMED.value))]

        colls = []
        for c in range(self.ncoll):
            try:
                colls.append([c, _kind(reg.getCollectionType(cname(c)).name)])
            except Exception as e:  # noqa: BLE001
                perr("getCollectionType", e)
        obs["colls"] = colls
        chains = []
        for c, kd in colls:
            if kd == 3:
                try:
                    chains.append([c, [int(n[1:]) for n in reg.getCollectionChain(cname(c))]])
                except Exception as e:  # noqa: BLE001
                    perr("getCollectionChain", e)
        obs["chains"] = chains

        refs = {d: self.live_ref(d) for d in range(self.nds)}
        ex_full, ex_fast, stored, locs, getds = {}, {}, {}, {}, {}
        for d, r in refs.items():
            try:
                ex_full[d] = flags(b.exists(r, full_check=True))
            except Exception as e:  # noqa: BLE001
                perr("exists", e)
                ex_full[d] = [9, 9, 9, 9]
            try:
                ex_fast[d] = flags(b.exists(r, full_check=False))
            except Exception as e:  # noqa: BLE001
                perr("exists-fast", e)
                ex_fast[d] = [9, 9, 9, 9]
            try:
                stored[d] = int(bool(b.stored(r)))
            except Exception as e:  # noqa: BLE001
                perr("stored", e)
                stored[d] = 9
            try:
                locs[d] = int(len(list(reg.getDatasetLocations(r))) > 0)
            except Exception as e:  # noqa: BLE001
                perr("getDatasetLocations", e)
                locs[d] = 9
            try:
                g = b.get_dataset(self.uuid_of[d])
                getds[d] = int(g is not None)
            except Exception as e:  # noqa: BLE001
                perr("get_dataset", e)
                getds[d] = 9
        rl = list(refs.values())
        try:
            m = b._exists_many(rl, full_check=True)
            many_full = {self.n_of[r.id]: flags(v) for r, v in m.items()}
        except Exception as e:  # noqa: BLE001
            perr("_exists_many", e)
            many_full = {}
        try:
            m = b._exists_many(rl, full_check=False)
            many_fast = {self.n_of[r.id]: flags(v) for r, v in m.items()}
        except Exception as e:  # noqa: BLE001
            perr("_exists_many-fast", e)
            many_fast = {}
        try:
            m = b.stored_many(rl)
            stored_many = {self.n_of[r.id]: int(bool(v)) for r, v in m.items()}
        except Exception as e:  # noqa: BLE001
            perr("stored_many", e)
            stored_many = {}
        order = list(range(self.nds))
        obs["exists"] = [ex_full[d] for d in order]
        obs["exists_fast"] = [ex_fast[d] for d in order]
        obs["many"] = [many_full.get(d, [9, 9, 9, 9]) for d in order]
        obs["many_fast"] = [many_fast.get(d, [9, 9, 9, 9]) for d in order]
        obs["stored"] = [stored[d] for d in order]
        obs["stored_many"] = [stored_many.get(d, 9) for d in order]
        obs["locations"] = [locs[d] for d in order]
        obs["get_dataset"] = [getds[d] for d in order]
        car = []
        for d, cr in sorted(self.carried.items()):
            try:
                car.append([d] + flags(b.exists(cr, full_check=True))[:3])
            except Exception as e:  # noqa: BLE001
                perr("exists-carried", e)
        obs["carried"] = car

        # readable: can the dataset actually be fetched
        if full:
            rd = []
            for d in order:
                try:
                    v = b.get(refs[d])
                    rd.append(1 if isinstance(v, dict) and (v.get("d") == d or d in v.get("ds", ())) else 2)
                except Exception:  # noqa: BLE001
                    rd.append(0)
            obs["readable"] = rd

        # contents of every collection through the query interfaces: rows [collection, dataset id]
        qd, qleg, assoc = [], [], []
        for c, kd in colls:
            cn = cname(c)
            for t in range(NTYPE):
                tn = f"dt{t}"
                try:
                    for r in b.query_datasets(tn, collections=[cn], find_first=False, explain=False, limit=None):
                        qd.append([c, self.n_of.get(r.id, -1)])
                except Exception as e:  # noqa: BLE001
                    perr("query_datasets", e)
                if full:
                    try:
                        for r in reg.queryDatasets(tn, collections=[cn], findFirst=False):
                            qleg.append([c, self.n_of.get(r.id, -1)])
                    except Exception as e:  # noqa: BLE001
                        perr("queryDatasets", e)
                if kd == 3:
                    continue
                try:
                    for a in reg.queryDatasetAssociations(tn, collections=[cn], flattenChains=False):
                        row = [int(a.collection[1:]), self.n_of.get(a.ref.id, -1)]
                        if a.timespan is not None:
                            row += [_day(a.timespan.begin), _day(a.timespan.end)]
                        assoc.append(row)
                except Exception as e:  # noqa: BLE001
                    perr("queryDatasetAssociations", e)
        obs["qd"] = sorted(map(list, {tuple(r) for r in qd}))
        multi = {c for c, kd in colls if kd in (3, 4)}     # chains / calibration collections may list a dataset repeatedly
        flat = [tuple(r) for r in qd if r[0] not in multi]
        obs["qd_dups"] = len(flat) - len(set(flat))
        if full:
            obs["qleg"] = sorted(map(list, {tuple(r) for r in qleg}))
        obs["assoc"] = sorted(assoc)

        # root listing -> artifacts as (run, key); unknown files are reported as such
        files, unknown = [], []
        for rel in fixture.listing(self.root):
            if rel in self.path_of:
                files.append(list(self.path_of[rel]))
            else:
                unknown.append(rel)
        obs["files"] = sorted(files)
        obs["unknown_files"] = sorted(unknown)
        obs.update(self.raw())
        # the definition (run, key) of every dataset the registry has (harness bookkeeping): lets the oracle tell a dataset whose
        # records name the artifact written for ITSELF from the second ref of a two-ref ingest
        obs["defs"] = sorted([r[0], self.def_of[r[0]][0], self.def_of[r[0]][1]] for r in obs["raw_ds"] if r[0] in self.def_of)
        return obs

    def raw(self):
        con = sqlite3.connect(f"file:{self.dbfile}?mode=ro", uri=True, timeout=30)
        try:
            cur = con.cursor()

            def dsn(b):
                try:
                    u = uuid.UUID(bytes=b) if isinstance(b, bytes) else uuid.UUID(str(b))
                except Exception:  # noqa: BLE001
                    return -1
                return self.n_of.get(u, -1)

            cols = {r[0]: r[1] for r in cur.execute("select collection_id, name from collection")}

            def cnum(k):
                n = cols.get(k, "?")
                return int(n[1:]) if n.startswith("c") and n[1:].isdigit() else -1

            loc = sorted(dsn(r[0]) for r in cur.execute("select dataset_id from dataset_location"))
            trash = sorted(dsn(r[0]) for r in cur.execute("select dataset_id from dataset_location_trash"))
            recs = []
            for i, p in cur.execute("select dataset_id, path from file_datastore_records"):
                rk = self.path_of.get(p, (-1, -1))
                recs.append([dsn(i), rk[0], rk[1]])
            ds = sorted([dsn(i), cnum(run)] for i, run in cur.execute("select id, run_id from dataset"))
            return {"raw_loc": loc, "raw_trash": trash, "raw_recs": sorted(recs), "raw_ds": ds}
        finally:
            con.close()

    def close(self):
        try:
            self.butler.close()
        except Exception:  # noqa: BLE001
            pass
        fixture.cleanup(self.root)
        if self.src is not None:
            fixture.cleanup(self.src[0])


def _kind(name):
    return {"RUN": 1, "TAGGED": 2, "CHAINED": 3, "CALIBRATION": 4}.get(name, 9)


def _day(t):
    """Timespan bound -> small integer (days since 2020-01-01 TAI); None (unbounded) -> -1."""
    if t is None:
        return -1
    import astropy.time
    t0 = astropy.time.Time("2020-01-01T00:00:00", scale="tai")
    return int(round((t - t0).to_value("day")))


def run_histories(payload):
    """payload {"histories": [[op, ...], ...], "ncoll": n, "nds": n, "full": bool}
    -> [{"steps": [{"out": str, "obs": {...}} ...]}]"""
    out = []
    for h in payload["histories"]:
        d = Driver(payload.get("ncoll", 8), payload.get("nds", 8))
        try:
            steps = []
            for op in h:
                o = d.step(op)
                steps.append({"out": o, "obs": d.observe(full=payload.get("full", True))})
            out.append({"steps": steps})
        finally:
            d.close()
    return out


def probe(payload):
    """Free-form probe used by the builder and by the stale-record check: runs a history and then evaluates exists()
    with a ref that carries datastore records obtained BEFORE the history's last op."""
    d = Driver(payload.get("ncoll", 8), payload.get("nds", 8))
    try:
        res = []
        for op in payload["history"]:
            o = d.step(op)
            res.append(o)
        return {"outs": res, "obs": d.observe()}
    finally:
        d.close()
