"""C06 implementation driver: REAL dimension-record insertion (insert / replace / skip_existing / sync / sync update)
and REAL data-ID queries (Butler.query_data_ids, Registry.queryDataIds, Butler.query_dimension_records) on scratch
SQLite repositories.  Runs in a worker subprocess (common.run_worker); JSON in, JSON out.

Key values travel as small integers; `to_impl` turns them into what the dimension's primary key wants (a string
"<dim>_<n>" for string keys, the integer itself otherwise) and `from_impl` turns them back.  Regions travel as ids
into a table of lon/lat boxes built here with lsst.sphgeom, which also supplies the geometry the model and the oracle
use: exact relation of every pair of regions and the common-skypix envelope of every region.
"""
from __future__ import annotations

import base64
import sqlite3
import traceback

from harness.impl import fixture


def describe(universe):
    els = []
    for e in universe.elements:
        if e.name in universe.skypix_dimensions.names:
            continue
        els.append({
            "name": e.name, "required": list(e.required.names), "implied": list(e.implied.names),
            "is_dimension": e.name in universe.dimensions.names,
            "always_join": bool(e.alwaysJoin), "defines_relationships": bool(e.defines_relationships),
            "has_own_table": bool(e.has_own_table),
            "view_of": getattr(e.implied_union_target, "name", None),
            "spatial": getattr(e.spatial, "name", None),
            "pk_str": (e.primaryKey.getPythonType() is str) if e.name in universe.dimensions.names else None,
        })
    fams = {}
    for e in universe.elements:
        f = e.spatial
        if f is not None and hasattr(f, "members") and f.name not in fams:
            fams[f.name] = [m.name for m in f.members]
    return {"elements": els, "spatial_families": fams, "common_skypix": universe.commonSkyPix.name}


def list_groups(payload):
    """All distinct dependency-closed groups over the non-skypix dimensions + the metadata the oracle uses."""
    from lsst.daf.butler import DimensionUniverse
    import itertools
    u = DimensionUniverse()
    dims = [d for d in u.dimensions.names if d not in u.skypix_dimensions.names]
    seen = {}
    for k in range(len(dims) + 1):
        for sub in itertools.combinations(dims, k):
            g = u.conform(sub)
            seen.setdefault(tuple(g.names), {"names": list(g.names), "elements": [x for x in g.elements],
                                             "spatial": sorted(f.name for f in g.spatial)})
    return {"universe": describe(u), "groups": list(seen.values()), "dims": dims}


def box(lon0, lon1, lat0, lat1):
    import lsst.sphgeom as sg
    return sg.ConvexPolygon([sg.UnitVector3d(sg.LonLat.fromDegrees(lo, la))
                             for lo, la in ((lon0, lat0), (lon1, lat0), (lon1, lat1), (lon0, lat1))])


def geometry(universe, regions):
    """regions: {rid: [lon0, lon1, lat0, lat1]} -> region objects, pairwise relations, envelopes"""
    import lsst.sphgeom as sg
    objs = {int(k): box(*v) for k, v in regions.items()}
    pix = universe.commonSkyPix.pixelization
    env = {}
    for k, r in objs.items():
        env[k] = sorted({i for b, e in pix.envelope(r) for i in range(b, e)})
    ids = sorted(objs)
    ov_impl, ov_exact, undecided = [], [], []
    for i in ids:
        for j in ids:
            if j < i:
                continue
            o = objs[i].overlaps(objs[j])            # what Postprocessing.apply calls (True / False / None)
            rel = objs[i].relate(objs[j])            # independent predicate for the oracle
            if o is not False:
                ov_impl.append([i, j])
            if not (rel & sg.DISJOINT):
                ov_exact.append([i, j])
            if o is None:
                undecided.append([i, j])
    return objs, {"env": {str(k): v for k, v in env.items()}, "ov_impl": ov_impl, "ov_exact": ov_exact,
                  "undecided": undecided}


class Conv:
    def __init__(self, universe):
        self.u = universe
        self.is_str = {d: universe.dimensions[d].primaryKey.getPythonType() is str for d in universe.dimensions.names}

    def to_impl(self, d, v):
        return f"{d}_{v}" if self.is_str[d] else int(v)

    def from_impl(self, d, x):
        if x is None:
            return None
        if self.is_str[d]:
            s = str(x)
            pre = d + "_"
            return int(s[len(pre):]) if s.startswith(pre) and s[len(pre):].lstrip("-").isdigit() else -1
        return int(x)


def extra_fields(element, rec):
    if element == "skymap":
        return {"hash": ("h%d" % rec["skymap"]).encode().ljust(8, b"_"), "tract_max": 50, "patch_nx_max": 50, "patch_ny_max": 50}
    return {}


def make_record(universe, conv, element, vals, region):
    e = universe[element]
    d = {}
    for dim, col in zip(e.required.names, e.schema.required.names):
        d[col] = conv.to_impl(dim, vals[dim])
    for dim in e.implied.names:
        d[dim] = conv.to_impl(dim, vals[dim])
    d.update(extra_fields(element, vals))
    if e.spatial is not None:
        d["region"] = region
    return e.RecordClass(**d)


def classify(exc: BaseException) -> str:
    import sqlalchemy.exc
    from lsst.daf.butler.registry import ConflictingDefinitionError
    try:
        from lsst.daf.butler import InvalidQueryError
    except Exception:  # noqa: BLE001
        InvalidQueryError = ()
    if isinstance(exc, sqlalchemy.exc.IntegrityError):
        return "integrity"
    if isinstance(exc, ConflictingDefinitionError):
        return "conflict"
    if InvalidQueryError and isinstance(exc, InvalidQueryError):
        return "invalid"
    if isinstance(exc, (TypeError, AttributeError)) and ("overlaps" in str(exc) or "relate" in str(exc) or "NoneType" in str(exc)):
        return "crash"
    return "other:" + type(exc).__name__ + ":" + str(exc)[:160]


def apply_op(butler, universe, conv, objs, o):
    reg = butler.registry
    region = objs[o["rid"]] if o.get("rid") is not None else None
    try:
        rec = make_record(universe, conv, o["e"], o["vals"], region)
    except Exception as exc:  # noqa: BLE001
        return "badrec:" + type(exc).__name__
    k = o["k"]
    try:
        if k == "insert":
            reg.insertDimensionData(o["e"], rec)
            return "ok"
        if k == "replace":
            reg.insertDimensionData(o["e"], rec, replace=True)
            return "ok"
        if k == "skip":
            reg.insertDimensionData(o["e"], rec, skip_existing=True)
            return "ok"
        if k in ("sync", "syncupd"):
            r = reg.syncDimensionData(o["e"], rec, update=(k == "syncupd"))
            if r is True:
                return "inserted"
            if r is False:
                return "same"
            return "updated"
        return "badop"
    except Exception as exc:  # noqa: BLE001
        return classify(exc)


def dump(root, universe, conv, objs):
    """Final dimension tables and overlap tables, read straight from the SQLite file."""
    enc = {}
    for rid, r in objs.items():
        enc[base64.b64encode(r.encode()).decode()] = rid
    con = sqlite3.connect(f"file:{root}/gen3.sqlite3?mode=ro", uri=True)
    tables, overlaps = {}, {}
    common = universe.commonSkyPix
    for e in universe.elements:
        if e.name in universe.skypix_dimensions.names or not e.has_own_table:
            continue
        colmap = list(zip(e.required.names, e.schema.required.names)) + [(d, d) for d in e.implied.names]
        sel = ", ".join(f'"{c}"' for _, c in colmap) + (', "region"' if e.spatial is not None else "")
        rows = []
        for row in con.execute(f'SELECT {sel} FROM "{e.name}"').fetchall():
            vals = [conv.from_impl(d, x) for (d, _), x in zip(colmap, row)]
            rid = None
            if e.spatial is not None and row[-1] is not None:
                raw = row[-1]
                if isinstance(raw, bytes):
                    raw = raw.decode()
                rid = enc.get(raw, -1)
            rows.append([vals, rid])
        tables[e.name] = rows
        if e.spatial is not None:
            cols = ", ".join(f'"{d}"' for d in e.required.names)
            q = (f'SELECT {cols}, skypix_index FROM "{e.name}_skypix_overlap" WHERE skypix_system = ? AND skypix_level = ?')
            overlaps[e.name] = [[[conv.from_impl(d, x) for d, x in zip(e.required.names, row[:-1])], int(row[-1])]
                                for row in con.execute(q, (common.system.name, common.level)).fetchall()]
            other = con.execute(f'SELECT count(*) FROM "{e.name}_skypix_overlap" WHERE NOT (skypix_system = ? AND skypix_level = ?)',
                                (common.system.name, common.level)).fetchone()[0]
            if other:
                overlaps[e.name + ":other_system_rows"] = other
    con.close()
    return tables, overlaps


def rows_of(conv, names, data_ids):
    out = []
    for d in data_ids:
        m = d.mapping
        out.append([conv.from_impl(n, m.get(n)) for n in names])
    return out


def run_queries(butler, universe, conv, objs, groups):
    res = []
    for names in groups:
        o = {"names": names}
        try:
            with butler.query() as q:
                ids = list(q.data_ids(names))
            o["new"] = rows_of(conv, names, ids)
            o["new_n"] = len(ids)
        except Exception as exc:  # noqa: BLE001
            o["new_err"] = classify(exc)
        try:
            ids = list(butler.query_data_ids(names, explain=False))
            o["simple"] = rows_of(conv, names, ids)
        except Exception as exc:  # noqa: BLE001
            o["simple_err"] = classify(exc)
        try:
            ids = list(butler.registry.queryDataIds(names))
            o["legacy"] = rows_of(conv, names, ids)
        except Exception as exc:  # noqa: BLE001
            o["legacy_err"] = classify(exc)
        res.append(o)
    return res


def records_via_query(butler, universe, conv, objs):
    """Butler.query_dimension_records for every element with a table: (key+implied values, region id)"""
    out = {}
    for e in universe.elements:
        if e.name in universe.skypix_dimensions.names or not e.has_own_table:
            continue
        try:
            recs = list(butler.query_dimension_records(e.name, explain=False))
        except Exception as exc:  # noqa: BLE001
            out[e.name] = {"err": classify(exc)}
            continue
        rows = []
        colmap = list(zip(e.required.names, e.schema.required.names)) + [(d, d) for d in e.implied.names]
        for r in recs:
            m = r.toDict()
            vals = [conv.from_impl(d, m.get(c)) for d, c in colmap]
            rid = None
            if e.spatial is not None and r.region is not None:
                rid = next((k for k, x in objs.items() if x == r.region), -1)
            rows.append([vals, rid])
        out[e.name] = {"rows": rows}
    return out


def run_population(payload):
    """payload: {regions, histories: [{name, ops}], groups: [[names]], records_query: bool}"""
    out = {"histories": []}
    universe = None
    for h in payload["histories"]:
        root = None
        ho = {"name": h["name"]}
        try:
            root, butler = fixture.make_repo()
            universe = butler.dimensions
            conv = Conv(universe)
            objs, geom = geometry(universe, payload["regions"])
            if "geometry" not in out:
                out["geometry"] = geom
                out["universe"] = describe(universe)
            ho["outcomes"] = [apply_op(butler, universe, conv, objs, o) for o in h["ops"]]
            ho["tables"], ho["overlaps"] = dump(root, universe, conv, objs)
            ho["queries"] = run_queries(butler, universe, conv, objs, h.get("groups", payload["groups"]))
            if payload.get("records_query", True):
                ho["records"] = records_via_query(butler, universe, conv, objs)
        except Exception as exc:  # noqa: BLE001
            ho["fatal"] = type(exc).__name__ + ": " + str(exc)[:300] + " | " + traceback.format_exc()[-600:]
        finally:
            if root:
                fixture.cleanup(root)
        out["histories"].append(ho)
    return out
