"""C06 implementation driver: REAL dimension-record insertion (insert / replace / skip_existing / sync / sync update)
and REAL data-ID queries (Butler.query_data_ids, Registry.queryDataIds, Butler.query_dimension_records) on scratch
SQLite repositories.  Runs in a worker subprocess (common.run_worker); JSON in, JSON out.

Key values travel as small integers; `to_impl` turns them into what the dimension's primary key wants (a string
"<dim>_<n>" for string keys, the integer itself otherwise) and `from_impl` turns them back.  Regions travel as ids
into a table of lon/lat boxes built here with lsst.sphgeom, which also supplies the geometry the model and the oracle
use: exact relation of every pair of regions and the common-skypix envelope of every region.
"""
from __future__ import annotations

import base64
import sqlite3
import traceback

from harness.impl import fixture


def describe(universe):
    els = []
    for e in universe.elements:
        if e.name in universe.skypix_dimensions.names:
            continue
        els.append({
            "name": e.name, "required": list(e.required.names), "implied": list(e.implied.names),
            "is_dimension": e.name in universe.dimensions.names,
            "always_join": bool(e.alwaysJoin), "defines_relationships": bool(e.defines_relationships),
            "has_own_table": bool(e.has_own_table),
            "view_of": getattr(e.implied_union_target, "name", None),
            "spatial": getattr(e.spatial, "name", None),
            "temporal": getattr(e.temporal, "name", None),
            "pk_str": (e.primaryKey.getPythonType() is str) if e.name in universe.dimensions.names else None,
        })
    fams = {}
    for e in universe.elements:
        f = e.spatial
        if f is not None and hasattr(f, "members") and f.name not in fams:
            fams[f.name] = [m.name for m in f.members]
    return {"elements": els, "spatial_families": fams, "common_skypix": universe.commonSkyPix.name}


def list_groups(payload):
    """All distinct dependency-closed groups over the non-skypix dimensions + the metadata the oracle uses."""
    from lsst.daf.butler import DimensionUniverse
    import itertools
    u = DimensionUniverse()
    dims = [d for d in u.dimensions.names if d not in u.skypix_dimensions.names]
    seen = {}
    for k in range(len(dims) + 1):
        for sub in itertools.combinations(dims, k):
            g = u.conform(sub)
            seen.setdefault(tuple(g.names), {"names": list(g.names), "elements": [x for x in g.elements],
                                             "spatial": sorted(f.name for f in g.spatial)})
    return {"universe": describe(u), "groups": list(seen.values()), "dims": dims}


def box(lon0, lon1, lat0, lat1):
    import lsst.sphgeom as sg
    return sg.ConvexPolygon([sg.UnitVector3d(sg.LonLat.fromDegrees(lo, la))
                             for lo, la in ((lon0, lat0), (lon1, lat0), (lon1, lat1), (lon0, lat1))])


def geometry(universe, regions):
    """regions: {rid: [lon0, lon1, lat0, lat1]} -> region objects, pairwise relations, envelopes"""
    import lsst.sphgeom as sg
    objs = {int(k): box(*v) for k, v in regions.items()}
    pix = universe.commonSkyPix.pixelization
    env = {}
    for k, r in objs.items():
        env[k] = sorted({i for b, e in pix.envelope(r) for i in range(b, e)})
    ids = sorted(objs)
    ov_impl, ov_exact, undecided = [], [], []
    for i in ids:
        for j in ids:
            if j < i:
                continue
            o = objs[i].overlaps(objs[j])            # what Postprocessing.apply calls (True / False / None)
            rel = objs[i].relate(objs[j])            # independent predicate for the oracle
            if o is not False:
                ov_impl.append([i, j])
            if not (rel & sg.DISJOINT):
                ov_exact.append([i, j])
            if o is None:
                undecided.append([i, j])
    return objs, {"env": {str(k): v for k, v in env.items()}, "ov_impl": ov_impl, "ov_exact": ov_exact,
                  "undecided": undecided}


class Conv:
    def __init__(self, universe):
        self.u = universe
        self.is_str = {d: universe.dimensions[d].primaryKey.getPythonType() is str for d in universe.dimensions.names}

    def to_impl(self, d, v):
        return f"{d}_{v}" if self.is_str[d] else int(v)

    def from_impl(self, d, x):
        if x is None:
            return None
        if self.is_str[d]:
            s = str(x)
            pre = d + "_"
            return int(s[len(pre):]) if s.startswith(pre) and s[len(pre):].lstrip("-").isdigit() else -1
        return int(x)


TS_BASE = 1577836800000000000      # 2020-01-01T00:00:00 TAI in nanoseconds (TimeConverter.astropy_to_nsec)
TS_UNIT = 10 ** 9


def mk_timespan(ts):
    """[b, e) in seconds after TS_BASE -> Timespan"""
    from lsst.daf.butler import Timespan
    if ts is None:
        return None
    return Timespan(None, None, _nsec=(TS_BASE + int(ts[0]) * TS_UNIT, TS_BASE + int(ts[1]) * TS_UNIT))


def ts_from_nsec(b, e):
    if b is None and e is None:
        return None
    if b is None or e is None:
        return [-999, -999]
    qb, rb = divmod(int(b) - TS_BASE, TS_UNIT)
    qe, re_ = divmod(int(e) - TS_BASE, TS_UNIT)
    if rb or re_:
        return [-998, -998]
    return [qb, qe]


def extra_fields(element, rec):
    if element == "skymap":
        return {"hash": ("h%d" % rec["skymap"]).encode().ljust(8, b"_"), "tract_max": 50, "patch_nx_max": 50, "patch_ny_max": 50}
    return {}


def make_record(universe, conv, element, vals, region, ts=None):
    e = universe[element]
    d = {}
    for dim, col in zip(e.required.names, e.schema.required.names):
        d[col] = conv.to_impl(dim, vals[dim])
    for dim in e.implied.names:
        d[dim] = conv.to_impl(dim, vals[dim])
    d.update(extra_fields(element, vals))
    if e.spatial is not None:
        d["region"] = region
    if e.temporal is not None:
        d["timespan"] = mk_timespan(ts)
    elif ts is not None:
        raise ValueError("timespan given for a non-temporal element")
    return e.RecordClass(**d)


def classify(exc: BaseException) -> str:
    import sqlalchemy.exc
    from lsst.daf.butler.registry import ConflictingDefinitionError
    try:
        from lsst.daf.butler import InvalidQueryError
    except Exception:  # noqa: BLE001
        InvalidQueryError = ()
    if isinstance(exc, sqlalchemy.exc.IntegrityError):
        return "integrity"
    if isinstance(exc, ConflictingDefinitionError):
        return "conflict"
    if InvalidQueryError and isinstance(exc, InvalidQueryError):
        return "invalid"
    if isinstance(exc, (TypeError, AttributeError)) and ("overlaps" in str(exc) or "relate" in str(exc) or "NoneType" in str(exc)):
        return "crash"
    return "other:" + type(exc).__name__ + ":" + str(exc)[:160]


def apply_op(butler, universe, conv, objs, o):
    reg = butler.registry
    region = objs[o["rid"]] if o.get("rid") is not None else None
    try:
        rec = make_record(universe, conv, o["e"], o["vals"], region, o.get("ts"))
    except Exception as exc:  # noqa: BLE001
        return "badrec:" + type(exc).__name__
    k = o["k"]
    try:
        if k == "insert":
            reg.insertDimensionData(o["e"], rec)
            return "ok"
        if k == "replace":
            reg.insertDimensionData(o["e"], rec, replace=True)
            return "ok"
        if k == "skip":
            reg.insertDimensionData(o["e"], rec, skip_existing=True)
            return "ok"
        if k in ("sync", "syncupd"):
            r = reg.syncDimensionData(o["e"], rec, update=(k == "syncupd"))
            if r is True:
                return "inserted"
            if r is False:
                return "same"
            return "updated"
        return "badop"
    except Exception as exc:  # noqa: BLE001
        return classify(exc)


def dump(root, universe, conv, objs):
    """Final dimension tables and overlap tables, read straight from the SQLite file."""
    enc = {}
    for rid, r in sorted(objs.items(), reverse=True):
        enc[base64.b64encode(r.encode()).decode()] = rid      # equal boxes decode to the SMALLEST id (as records_via_query does)
    con = sqlite3.connect(f"file:{root}/gen3.sqlite3?mode=ro", uri=True)
    tables, overlaps = {}, {}
    common = universe.commonSkyPix
    for e in universe.elements:
        if e.name in universe.skypix_dimensions.names or not e.has_own_table:
            continue
        colmap = list(zip(e.required.names, e.schema.required.names)) + [(d, d) for d in e.implied.names]
        sel = ", ".join(f'"{c}"' for _, c in colmap) + (', "region"' if e.spatial is not None else ", NULL") \
            + (', "timespan_begin", "timespan_end"' if e.temporal is not None else ", NULL, NULL")
        rows = []
        for row in con.execute(f'SELECT {sel} FROM "{e.name}"').fetchall():
            vals = [conv.from_impl(d, x) for (d, _), x in zip(colmap, row)]
            rid = None
            if e.spatial is not None and row[-3] is not None:
                raw = row[-3]
                if isinstance(raw, bytes):
                    raw = raw.decode()
                rid = enc.get(raw, -1)
            rows.append([vals, rid, ts_from_nsec(row[-2], row[-1])])
        tables[e.name] = rows
        if e.spatial is not None:
            cols = ", ".join(f'"{d}"' for d in e.required.names)
            q = (f'SELECT {cols}, skypix_index FROM "{e.name}_skypix_overlap" WHERE skypix_system = ? AND skypix_level = ?')
            overlaps[e.name] = [[[conv.from_impl(d, x) for d, x in zip(e.required.names, row[:-1])], int(row[-1])]
                                for row in con.execute(q, (common.system.name, common.level)).fetchall()]
            other = con.execute(f'SELECT count(*) FROM "{e.name}_skypix_overlap" WHERE NOT (skypix_system = ? AND skypix_level = ?)',
                                (common.system.name, common.level)).fetchone()[0]
            if other:
                overlaps[e.name + ":other_system_rows"] = other
    con.close()
    return tables, overlaps


def rows_of(conv, names, data_ids):
    out = []
    for d in data_ids:
        m = d.mapping
        out.append([conv.from_impl(n, m.get(n)) for n in names])
    return out


def run_queries(butler, universe, conv, objs, groups):
    res = []
    for names in groups:
        o = {"names": names}
        try:
            with butler.query() as q:
                ids = list(q.data_ids(names))
            o["new"] = rows_of(conv, names, ids)
            o["new_n"] = len(ids)
        except Exception as exc:  # noqa: BLE001
            o["new_err"] = classify(exc)
        try:
            ids = list(butler.query_data_ids(names, explain=False))
            o["simple"] = rows_of(conv, names, ids)
        except Exception as exc:  # noqa: BLE001
            o["simple_err"] = classify(exc)
        try:
            ids = list(butler.registry.queryDataIds(names))
            o["legacy"] = rows_of(conv, names, ids)
        except Exception as exc:  # noqa: BLE001
            o["legacy_err"] = classify(exc)
        res.append(o)
    return res


def run_opqueries(butler, universe, conv, objs, opqs, tag):
    """queries with a join operand: {"G": names, "ons": names of a closed group, "kind": mat|upload|dataset, "frac": share of
    the data IDs of the operand's group that is uploaded / given a dataset} -> rows of .data_ids(G) after joining the
    operand, and the operand's rows as given (`given`, values in `ons` order)"""
    from lsst.daf.butler import DataCoordinate, DatasetType
    res = []
    run = None
    for i, oq in enumerate(opqs):
        G, ons, kind = oq["G"], oq["ons"], oq["kind"]
        o = {"ds": list(universe.conform(set(G) | set(ons)).names)}
        try:
            coords = None
            if kind in ("upload", "dataset"):
                if "rows" in oq:
                    given = [list(r) for r in oq["rows"]]
                else:
                    with butler.query() as q0:
                        src = sorted({tuple(r) for r in rows_of(conv, ons, list(q0.data_ids(ons)))})
                    keep = -(-len(src) * int(oq.get("frac", 1.0) * 10) // 10)
                    start = oq.get("skip", 0) % max(1, len(src))
                    given = [list(r) for r in (src[start:] + src[:start])[:keep]]
                o["given"] = given
                coords = [DataCoordinate.standardize({d: conv.to_impl(d, v) for d, v in zip(ons, row)}, universe=universe)
                          for row in given]
            if kind == "dataset":
                if run is None:
                    run = f"oprun_{tag}"
                    butler.registry.registerRun(run)
                name = f"opdt_{tag}_{i}"
                dt = DatasetType(name, universe.conform(ons), "StructuredDataDict")
                butler.registry.registerDatasetType(dt)
                if coords:
                    butler.registry.insertDatasets(dt, coords, run=run)
            with butler.query() as q:
                if kind == "mat":
                    q2 = q.join_dimensions(ons).materialize()
                elif kind == "upload":
                    q2 = q.join_data_coordinates(coords) if coords else None
                else:
                    q2 = q.join_dataset_search(name, collections=[run])
                if q2 is None:
                    o["skipped"] = "empty upload"
                else:
                    ids = list(q2.data_ids(G))
                    o["rows"] = rows_of(conv, G, ids)
        except Exception as exc:  # noqa: BLE001
            o["err"] = classify(exc)
        res.append(o)
    return res


def temporal_joins(butler, universe):
    """explicit `a.timespan OVERLAPS b.timespan` between every pair of temporal elements: accepted ('rows') or error class"""
    out = []
    tel = [e.name for e in universe.elements if e.temporal is not None and e.name not in universe.skypix_dimensions.names]
    for a in tel:
        for b2 in tel:
            if a >= b2:
                continue
            names = sorted(set(universe[a].minimal_group.names) | set(universe[b2].minimal_group.names))
            try:
                with butler.query() as q:
                    list(q.where(f"{a}.timespan OVERLAPS {b2}.timespan").data_ids(names))
                out.append([a, b2, "rows"])
            except Exception as exc:  # noqa: BLE001
                out.append([a, b2, classify(exc)])
    return out


def records_via_query(butler, universe, conv, objs):
    """Butler.query_dimension_records for every element with a table: (key+implied values, region id)"""
    out = {}
    for e in universe.elements:
        if e.name in universe.skypix_dimensions.names or not e.has_own_table:
            continue
        try:
            recs = list(butler.query_dimension_records(e.name, explain=False))
        except Exception as exc:  # noqa: BLE001
            out[e.name] = {"err": classify(exc)}
            continue
        rows = []
        colmap = list(zip(e.required.names, e.schema.required.names)) + [(d, d) for d in e.implied.names]
        for r in recs:
            m = r.toDict()
            vals = [conv.from_impl(d, m.get(c)) for d, c in colmap]
            rid = None
            if e.spatial is not None and r.region is not None:
                rid = next((k for k, x in sorted(objs.items()) if x == r.region), -1)
            ts = None
            if e.temporal is not None and r.timespan is not None:
                ts = ts_from_nsec(*r.timespan.nsec) if hasattr(r.timespan, "nsec") else ts_from_nsec(r.timespan._nsec[0], r.timespan._nsec[1])
            rows.append([vals, rid, ts])
        out[e.name] = {"rows": rows}
    return out


def run_population(payload):
    """payload: {regions, histories: [{name, ops}], groups: [[names]], records_query: bool}"""
    out = {"histories": []}
    universe = None
    for h in payload["histories"]:
        root = None
        ho = {"name": h["name"]}
        try:
            root, butler = fixture.make_repo()
            universe = butler.dimensions
            conv = Conv(universe)
            objs, geom = geometry(universe, payload["regions"])
            if "geometry" not in out:
                out["geometry"] = geom
                out["universe"] = describe(universe)
            ho["outcomes"] = [apply_op(butler, universe, conv, objs, o) for o in h["ops"]]
            ho["tables"], ho["overlaps"] = dump(root, universe, conv, objs)
            ho["queries"] = run_queries(butler, universe, conv, objs, h.get("groups", payload["groups"]))
            if payload.get("records_query", True):
                ho["records"] = records_via_query(butler, universe, conv, objs)
            if h.get("opqueries"):
                ho["opqueries"] = run_opqueries(butler, universe, conv, objs, h["opqueries"], h["name"])
            if payload.get("temporal_joins") and "tjoins" not in out:
                out["tjoins"] = temporal_joins(butler, universe)
        except Exception as exc:  # noqa: BLE001
            ho["fatal"] = type(exc).__name__ + ": " + str(exc)[:300] + " | " + traceback.format_exc()[-600:]
        finally:
            if root:
                fixture.cleanup(root)
        out["histories"].append(ho)
    return out


# ------------------------------------------------------------------------------------------------------------
# history shrinker: greedy removal of operations, re-running the IMPLEMENTATION on a fresh repository every time
# ------------------------------------------------------------------------------------------------------------
def _still_fails(payload, ops):
    """Run `ops` on a fresh repository and evaluate the failure predicate of payload['kind'] on what the implementation
    did; every predicate is self-contained (it compares the implementation with a brute-force evaluation over the
    records the implementation itself stored), so it keeps its meaning when operations are removed."""
    from harness.props.c06 import Meta, expected_rows, flat, norm
    root = None
    try:
        root, butler = fixture.make_repo()
        universe = butler.dimensions
        conv = Conv(universe)
        objs, geom = geometry(universe, payload["regions"])
        for o in ops:
            apply_op(butler, universe, conv, objs, o)
        tables, overlaps = dump(root, universe, conv, objs)
        kind = payload["kind"]
        if kind == "overlap":
            e = payload["element"]
            req = len(universe[e].required.names)
            want = sorted({tuple(r[0][:req]) + (p,) for r in tables.get(e, []) if r[1] is not None and r[1] >= 0
                           for p in geom["env"][str(r[1])]})
            got = sorted({tuple(r[0]) + (r[1],) for r in overlaps.get(e, [])})
            return got != want
        meta = Meta(describe(universe))
        P = {e: [(dict(zip(meta.cols(e), r[0])), r[1], r[2]) for r in tables.get(e, [])] for e in meta.el if e in tables}
        for e in meta.el:
            P.setdefault(e, [])
        if kind in ("raises", "rows"):
            q = run_queries(butler, universe, conv, objs, [payload["group"]["names"]])[0]
            api = payload.get("api", "new")
            if kind == "raises":
                return api + "_err" in q
            if api + "_err" in q:
                return False
            return norm(q[api]) != norm(expected_rows(meta, payload["group"], P, geom["ov_exact"]))
        if kind == "oprows":
            oq = payload["opquery"]
            obs = run_opqueries(butler, universe, conv, objs, [oq], "shr")[0]
            if "err" in obs:
                return True
            if "rows" not in obs:
                return False
            G, ons, D = payload["group"], payload["operand_group"], payload["closure_group"]
            full = norm(expected_rows(meta, D, P, geom["ov_exact"]))
            R = {tuple(r) for r in (norm(expected_rows(meta, ons, P, geom["ov_exact"])) if oq["kind"] == "mat" else obs.get("given", []))}
            io = [D["names"].index(n) for n in ons["names"]]
            ig = [D["names"].index(n) for n in G["names"]]
            return norm(obs["rows"]) != norm([[a[i] for i in ig] for a in full if tuple(a[i] for i in io) in R])
        if kind == "records":
            e = payload["element"]
            rq = records_via_query(butler, universe, conv, objs).get(e, {})
            if "rows" not in rq:
                return True
            eg = payload["group"]
            ok = {tuple(x[eg["names"].index(k)] for k in meta.cols(e)) for x in expected_rows(meta, eg, P, geom["ov_exact"])}
            stored = norm([flat(r) for r in tables.get(e, [])])
            return norm([flat(r) for r in rq["rows"]]) != [x for x in stored if tuple(x[:-3]) in ok]
        return False
    finally:
        if root:
            fixture.cleanup(root)


def shrink(payload):
    """payload: {regions, ops, kind, element|group, api, budget_s} -> {ops, trials, reproduced}"""
    import time
    t0 = time.time()
    budget = payload.get("budget_s", 100)
    ops = list(payload["ops"])
    trials = 1
    try:
        if not _still_fails(payload, ops):
            return {"reproduced": False, "ops": ops, "trials": trials}
    except Exception as exc:  # noqa: BLE001
        return {"reproduced": False, "ops": ops, "trials": trials, "error": type(exc).__name__ + ": " + str(exc)[:200]}
    changed = True
    while changed and time.time() - t0 < budget:
        changed = False
        # first whole chunks (all operations on one element, latest elements first), then single operations from the end
        chunks = []
        for e in dict.fromkeys(o["e"] for o in reversed(ops)):
            idx = [i for i, o in enumerate(ops) if o["e"] == e]
            if len(idx) > 1:
                chunks.append(idx)
        for idx in chunks:
            if time.time() - t0 > budget:
                break
            trial = [o for i, o in enumerate(ops) if i not in set(idx)]
            trials += 1
            try:
                if _still_fails(payload, trial):
                    ops, changed = trial, True
                    break
            except Exception:  # noqa: BLE001
                pass
        if changed:
            continue
        i = len(ops) - 1
        while i >= 0 and time.time() - t0 < budget:
            trial = ops[:i] + ops[i + 1:]
            trials += 1
            try:
                if _still_fails(payload, trial):
                    ops, changed = trial, True
            except Exception:  # noqa: BLE001
                pass
            i -= 1
    return {"reproduced": True, "ops": ops, "trials": trials, "seconds": round(time.time() - t0, 1)}
