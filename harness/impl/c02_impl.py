"""C02 implementation driver: replay registry histories on a REAL SQLite Butler registry and record, after
every step, the outcome class and what every query interface reports for every (collection, type, data ID).

Numeric ids <-> real names (kept here, never sent to the model):
  collection n  -> "c<n>"          dataset type n -> "dt<n>"   (dimensions instrument, detector)
  data id n     -> instrument "I<n // NDET>", detector n % NDET   (valid iff n < NINST * NDET)
  dataset id n  -> a UUID (returned by insertDatasets, or uuid5 of n for imports)

Ops (JSON lists):
  ["RegRun", c] ["RegTag", c] ["RegType", t]
  ["Insert", t, c, [[d, newid], ...]]            insertDatasets(dt, dataIds, run=c)
  ["Import", c, [[id, t, d], ...]]               _importDatasets([DatasetRef(dt, d, run=c, id=uuid(id))])
  ["Assoc", c, [[id, t, d, run], ...]]  ["Disassoc", c, [[id, t, d, run], ...]]
  ["RemoveDs", [[id, t, d, run], ...]]  ["RemoveColl", c]
Second layer (Model/RegistryX.v):
  ["RegChain", c] ["RegCalib", c]                registerCollection(CHAINED | CALIBRATION)
  ["SetChain", c, [child, ...]]                  setCollectionChain
  ["Certify", c, [[id, t, d, run], ...], b, len] certify(c, refs, [grid(b), grid(b + 1 + len)))
  ["RemoveType", t]                              removeDatasetType
dt2 is registered with isCalibration=True (Model/RegistryX.v is_calib_type).
"""
from __future__ import annotations

import sqlite3
import uuid

from harness.impl import fixture

NINST, NDET = 2, 2
NS = uuid.UUID("5a0c6b1e-0000-4000-8000-00000000c002")
CALIB_TYPE = 2
GRID0, GRIDSTEP = 1_600_000_000_000_000_000, 1_000_000_000_000      # validity-range grid point k = GRID0 + k * GRIDSTEP ns


def grid_ns(k):
    return GRID0 + k * GRIDSTEP


def grid_k(ns):
    k, rem = divmod(ns - GRID0, GRIDSTEP)
    return k if rem == 0 and 0 <= k < 1000 else 999999


def cname(n):
    return f"c{n}"


def tname(n):
    return f"dt{n}"


def did(n):
    return {"instrument": f"I{n // NDET}", "detector": n % NDET}


class Driver:
    def __init__(self, ncoll, ntype):
        self.ncoll, self.ntype = ncoll, ntype
        self.root, self.butler = fixture.make_repo(fixture.new_root("c02"))
        self.reg = self.butler.registry  # shim
        self.sql = self.butler._registry  # SqlRegistry
        for i in range(NINST):
            fixture.add_instrument(self.butler, name=f"I{i}", detectors=range(NDET), filters=())
        self.uuid_of: dict[int, uuid.UUID] = {}
        self.n_of: dict[uuid.UUID, int] = {}
        self.dtypes = {}
        from lsst.daf.butler import DatasetType
        for t in range(ntype + 2):
            self.dtypes[t] = DatasetType(tname(t), dimensions=["instrument", "detector"], storageClass="StructuredDataDict",
                                         universe=self.butler.dimensions, isCalibration=(t == CALIB_TYPE))
        self.dbfile = f"{self.root}/gen3.sqlite3"

    # -- id bijection ---------------------------------------------------------------------
    def uid(self, n):
        if n not in self.uuid_of:
            u = uuid.uuid5(NS, str(n))
            self.uuid_of[n] = u
            self.n_of[u] = n
        return self.uuid_of[n]

    def bind(self, n, u):
        self.uuid_of[n] = u
        self.n_of[u] = n

    def ref(self, n, t, d, run):
        from lsst.daf.butler import DataCoordinate, DatasetRef
        dc = DataCoordinate.standardize(did(d), dimensions=self.dtypes[t].dimensions)
        return DatasetRef(self.dtypes[t], dc, run=cname(run), id=self.uid(n))

    # -- ops ------------------------------------------------------------------------------
    def apply(self, op):
        k = op[0]
        if k == "RegRun":
            return "OkNew" if self.reg.registerRun(cname(op[1])) else "Ok"
        if k == "RegTag":
            from lsst.daf.butler import CollectionType
            return "OkNew" if self.reg.registerCollection(cname(op[1]), CollectionType.TAGGED) else "Ok"
        if k == "RegType":
            return "OkNew" if self.reg.registerDatasetType(self.dtypes[op[1]]) else "Ok"
        if k == "Insert":
            _, t, c, items = op
            refs = self.reg.insertDatasets(tname(t), [did(d) for d, _ in items], run=cname(c))
            assert len(refs) == len(items)
            for (d, n), r in zip(items, refs):
                self.bind(n, r.id)
            return "Ok"
        if k == "Import":
            _, c, items = op
            refs = [self.ref(n, t, d, c) for n, t, d in items]
            self.sql._importDatasets(refs)
            return "Ok"
        if k == "Assoc":
            _, c, items = op
            self.reg.associate(cname(c), [self.ref(n, t, d, run) for n, t, d, run in items])
            return "Ok"
        if k == "Disassoc":
            _, c, items = op
            self.reg.disassociate(cname(c), [self.ref(n, t, d, run) for n, t, d, run in items])
            return "Ok"
        if k == "RemoveDs":
            self.reg.removeDatasets([self.ref(n, t, d, run) for n, t, d, run in op[1]])
            return "Ok"
        if k == "RemoveColl":
            self.reg.removeCollection(cname(op[1]))
            return "Ok"
        if k in ("RegChain", "RegCalib"):
            from lsst.daf.butler import CollectionType
            kind = CollectionType.CHAINED if k == "RegChain" else CollectionType.CALIBRATION
            return "OkNew" if self.reg.registerCollection(cname(op[1]), kind) else "Ok"
        if k == "SetChain":
            self.reg.setCollectionChain(cname(op[1]), [cname(x) for x in op[2]])
            return "Ok"
        if k == "Certify":
            from lsst.daf.butler import Timespan
            _, c, items, b, ln = op
            self.reg.certify(cname(c), [self.ref(n, t, d, run) for n, t, d, run in items],
                             Timespan(None, None, _nsec=(grid_ns(b), grid_ns(b + 1 + ln))))
            return "Ok"
        if k == "RemoveType":
            self.reg.removeDatasetType(tname(op[1]))
            return "Ok"
        raise ValueError(f"unknown op {op}")

    def step(self, op):
        try:
            return self.apply(op)
        except Exception as e:  # noqa: BLE001
            return "Err:" + fixture.err_class(e)

    # -- observation ----------------------------------------------------------------------
    def _row(self, c, t, ref):
        did_ = ref.dataId
        inst = int(str(did_["instrument"])[1:])
        return [c, t, inst * NDET + int(did_["detector"]), self.n_of.get(ref.id, -1)]

    def observe(self, full=True):
        obs = {"probe_errors": {}}
        reg, butler = self.reg, self.butler

        def perr(kind, e):
            key = f"{kind}:{fixture.err_class(e)}"
            obs["probe_errors"][key] = obs["probe_errors"].get(key, 0) + 1

        # collections and dataset types as reported by the API
        colls = []
        for c in range(self.ncoll + 1):
            try:
                colls.append([c, reg.getCollectionType(cname(c)).name])
            except Exception as e:  # noqa: BLE001
                perr("getCollectionType", e)
        obs["colls"] = colls
        listed = sorted(int(n[1:]) for n in reg.queryCollections() if n.startswith("c") and n[1:].isdigit())
        obs["colls_listed"] = listed
        types = []
        for t in range(self.ntype + 1):
            try:
                reg.getDatasetType(tname(t))
                types.append(t)
            except Exception as e:  # noqa: BLE001
                perr("getDatasetType", e)
        obs["types"] = types
        views = {"qd": [], "qa": [], "bq": [], "fd": [], "qp": [], "bqp": []}
        have_c = {c for c, _ in colls}
        xkind = {c: k for c, k in colls if k in ("CHAINED", "CALIBRATION")}
        xv = {"chains": [], "qd": [], "bq": [], "qa_cal": [], "qa_chain": [], "first": [], "fd": [], "summ_t": [], "summ_g": []}
        summ_t, summ_g = [], []
        for c in range(self.ncoll + 1):
            cn = cname(c)
            try:
                s = reg.getCollectionSummary(cn)
                for dt in s.dataset_types.names:
                    if dt.startswith("dt"):
                        (xv["summ_t"] if c in xkind else summ_t).append([c, int(dt[2:])])
                for g in s.governors.get("instrument", ()):
                    (xv["summ_g"] if c in xkind else summ_g).append([c, int(g[1:])])
            except Exception as e:  # noqa: BLE001
                perr("getCollectionSummary", e)
            if c in xkind:
                self._observe_x(c, xkind[c], types, xv, perr)
                continue
            for t in range(self.ntype + 1):
                tn = tname(t)
                try:
                    for r in reg.queryDatasets(tn, collections=[cn], findFirst=False):
                        views["qd"].append(self._row(c, t, r))
                except Exception as e:  # noqa: BLE001
                    perr("queryDatasets", e)
                try:
                    for a in reg.queryDatasetAssociations(tn, collections=[cn]):
                        views["qa"].append(self._row(int(a.collection[1:]), t, a.ref))
                except Exception as e:  # noqa: BLE001
                    perr("queryDatasetAssociations", e)
                if not full or c not in have_c or t not in types:
                    continue      # names that do not exist are probed through queryDatasets (+ associations, raw rows) only
                try:
                    for r in butler.query_datasets(tn, collections=[cn], find_first=False, explain=False, limit=None):
                        views["bq"].append(self._row(c, t, r))
                except Exception as e:  # noqa: BLE001
                    perr("query_datasets", e)
                for g in range(NINST):
                    try:
                        for r in reg.queryDatasets(tn, collections=[cn], findFirst=True, dataId={"instrument": f"I{g}"}):
                            views["qp"].append(self._row(c, t, r))
                    except Exception as e:  # noqa: BLE001
                        perr("queryDatasets-governor", e)
                    try:
                        for r in butler.query_datasets(tn, collections=[cn], find_first=True, explain=False, limit=None,
                                                       where=f"instrument = 'I{g}'"):
                            views["bqp"].append(self._row(c, t, r))
                    except Exception as e:  # noqa: BLE001
                        perr("query_datasets-governor", e)
                for d in range(NINST * NDET):
                    try:
                        r = butler.find_dataset(tn, did(d), collections=[cn])
                        if r is not None:
                            views["fd"].append(self._row(c, t, r))
                    except Exception as e:  # noqa: BLE001
                        perr("find_dataset", e)
        for k in views:
            views[k].sort()
        if not full:
            for k in ("bq", "fd", "qp", "bqp"):
                del views[k]
        obs["views"] = views
        obs["summ_t"] = sorted(summ_t)
        obs["summ_g"] = sorted(summ_g)
        for k in xv:
            xv[k].sort()
        obs["x"] = xv
        obs.update(self.raw())
        return obs

    def _observe_x(self, c, kind, types, xv, perr):
        """Probes of one CHAINED / CALIBRATION collection (second layer)."""
        reg, butler, cn = self.reg, self.butler, cname(c)
        if kind == "CHAINED":
            try:
                xv["chains"].append([c] + [int(n[1:]) for n in reg.getCollectionChain(cn)])
            except Exception as e:  # noqa: BLE001
                perr("getCollectionChain", e)
        for t in types:
            tn = tname(t)
            try:
                for r in reg.queryDatasets(tn, collections=[cn], findFirst=False):
                    xv["qd"].append(self._row(c, t, r))
            except Exception as e:  # noqa: BLE001
                perr("x-queryDatasets", e)
            try:
                for r in butler.query_datasets(tn, collections=[cn], find_first=False, explain=False, limit=None):
                    xv["bq"].append(self._row(c, t, r))
            except Exception as e:  # noqa: BLE001
                perr("x-query_datasets", e)
            try:
                for a in reg.queryDatasetAssociations(tn, collections=[cn], flattenChains=True):
                    row = self._row(int(a.collection[1:]), t, a.ref)
                    if kind == "CALIBRATION":
                        ns = a.timespan.nsec if a.timespan is not None else (0, 0)
                        xv["qa_cal"].append(row + [grid_k(ns[0]), grid_k(ns[1])])
                    else:
                        xv["qa_chain"].append([c] + row[1:])
            except Exception as e:  # noqa: BLE001
                perr("x-queryDatasetAssociations", e)
            if kind == "CHAINED" and t != CALIB_TYPE:
                try:
                    for r in reg.queryDatasets(tn, collections=[cn], findFirst=True):
                        xv["first"].append(self._row(c, t, r))
                except Exception as e:  # noqa: BLE001
                    perr("x-queryDatasets-first", e)
                for d in range(NINST * NDET):
                    try:
                        r = butler.find_dataset(tn, did(d), collections=[cn])
                        if r is not None:
                            xv["fd"].append(self._row(c, t, r))
                    except Exception as e:  # noqa: BLE001
                        perr("x-find_dataset", e)

    def raw(self):
        """Rows read directly from the SQLite file (committed state), mapped back to numeric ids."""
        con = sqlite3.connect(f"file:{self.dbfile}?mode=ro", uri=True, timeout=30)
        try:
            cur = con.cursor()
            tables = [r[0] for r in cur.execute("select name from sqlite_master where type='table'")]
            cols = {r[0]: (r[1], r[2]) for r in cur.execute("select collection_id, name, type from collection")}
            tys = {r[0]: r[1] for r in cur.execute("select id, name from dataset_type")}

            def cnum(k):
                n = cols[k][0]
                return int(n[1:]) if n.startswith("c") and n[1:].isdigit() else -1

            def tnum(k):
                n = tys[k]
                return int(n[2:]) if n.startswith("dt") else -1

            def dsn(b):
                u = uuid.UUID(bytes=b) if isinstance(b, bytes) else uuid.UUID(str(b))
                return self.n_of.get(u, -1)

            tags = []
            for tb in tables:
                if tb.startswith("dataset_tags_"):
                    names = [r[1] for r in cur.execute(f"pragma table_info({tb})")]
                    if "instrument" not in names or "detector" not in names:
                        continue
                    for ty, ds, co, inst, det in cur.execute(
                            f"select dataset_type_id, dataset_id, collection_id, instrument, detector from {tb}"):
                        tags.append([cnum(co), tnum(ty), int(inst[1:]) * NDET + int(det), dsn(ds)])
            cal = []
            for tb in tables:
                if tb.startswith("dataset_calibs_"):
                    names = [r[1] for r in cur.execute(f"pragma table_info({tb})")]
                    if "instrument" not in names or "detector" not in names:
                        continue
                    for ty, ds_, co, inst, det, tb_, te_ in cur.execute(
                            f"select dataset_type_id, dataset_id, collection_id, instrument, detector, timespan_begin, timespan_end from {tb}"):
                        cal.append([cnum(co), tnum(ty), int(inst[1:]) * NDET + int(det), dsn(ds_), grid_k(tb_), grid_k(te_)])
            chain = {}
            for pa, ch, pos in cur.execute("select parent, child, position from collection_chain order by parent, position"):
                chain.setdefault(cnum(pa), []).append(cnum(ch))
            ds = [[dsn(i), tnum(ty), cnum(run)] for i, ty, run in cur.execute("select id, dataset_type_id, run_id from dataset")]
            st = [[cnum(c), tnum(t)] for c, t in cur.execute("select collection_id, dataset_type_id from collection_summary_dataset_type")]
            sg = [[cnum(c), int(g[1:])] for c, g in cur.execute("select collection_id, instrument from collection_summary_instrument")]
            rc = sorted([cnum(k), {1: "RUN", 2: "TAGGED", 3: "CHAINED", 4: "CALIBRATION"}.get(v[1], str(v[1]))] for k, v in cols.items())
            return {"raw_cal": sorted(cal), "raw_chain": sorted([p] + ch for p, ch in chain.items()),
                    "raw_tags": sorted(tags), "raw_ds": sorted(ds), "raw_summ_t": sorted(st), "raw_summ_g": sorted(sg),
                    "raw_colls": rc, "raw_types": sorted(tnum(k) for k in tys)}
        finally:
            con.close()

    def close(self):
        try:
            self.butler.close()
        except Exception:  # noqa: BLE001
            pass
        fixture.cleanup(self.root)


def run_histories(payload):
    """payload {"histories": [[op, ...], ...], "ncoll": n, "ntype": n, "full": bool, "cached": [bool per history]}
    -> [{"steps": [{"out": str, "obs": {...}} ...]}]"""
    out = []
    import contextlib
    cached = payload.get("cached") or [False] * len(payload["histories"])
    for h, cflag in zip(payload["histories"], cached):
        d = Driver(payload.get("ncoll", 5), payload.get("ntype", 3))
        try:
            steps = []
            # cached: every operation and every probe of the history runs inside ONE registry caching context (collection
            # records, summaries, dataset types cached by the client); the answers must be the same as without it
            with (d.butler.registry.caching_context() if cflag else contextlib.nullcontext()):
                for i, op in enumerate(h):
                    o = d.step(op)
                    steps.append({"out": o, "obs": d.observe(full=payload.get("full", True))})
            out.append({"steps": steps})
        finally:
            d.close()
    return out
