"""C18 implementation driver: generates value objects / Config trees from a seed, pushes them through every
serialised form of the REAL classes in /repo and records observations (JSON-able).  Pure Python objects: no
repository is needed, records are built directly from the universe's RecordClass.

Entry points (run through common.run_worker): serial_cases(payload), config_cases(payload).
"""
from __future__ import annotations

import json
import logging
import pickle
import random
import uuid
import warnings

warnings.filterwarnings("ignore")
logging.disable(logging.WARNING)

BS = "\\"

# ----------------------------------------------------------------------------------------------------
# helpers
# ----------------------------------------------------------------------------------------------------

def _exc(e: BaseException) -> str:
    return type(e).__name__


def _jsonable(v):
    """wire JSON -> JSON without floats (quarter units) so that no float digits are ever compared"""
    if isinstance(v, bool) or v is None or isinstance(v, (int, str)):
        return v
    if isinstance(v, float):
        q = v * 4
        if q != int(q):
            raise ValueError(f"float {v} is not a multiple of 1/4")
        return {"__f": int(q)}
    if isinstance(v, list):
        return [_jsonable(x) for x in v]
    if isinstance(v, dict):
        return {"__o": [[k, _jsonable(x)] for k, x in v.items()]}
    raise TypeError(type(v))


def _wire(s: str):
    return _jsonable(json.loads(s))


# ----------------------------------------------------------------------------------------------------
# Serial: instance generation against the real universe
# ----------------------------------------------------------------------------------------------------

DIM_POOL = ["instrument", "detector", "visit", "exposure", "band", "physical_filter", "day_obs", "group", "skymap",
            "tract", "patch", "subfilter", "visit_system", "htm7", "healpix5"]
STRS = ["Cam", "HSC", "g", "r2", "a b", "x/y", "", "Nåme", "q\"uote", "back\\slash", "s_1", "→arrow", "tab\there"]
SC_PLAIN = ["StructuredDataDict", "Wcs", "Catalog", "NoSuchStorageClass"]


class Gen:
    def __init__(self, seed):
        from lsst.daf.butler import DimensionUniverse
        from lsst.daf.butler.time_utils import TimeConverter

        self.r = random.Random(seed)
        self.u = DimensionUniverse()
        self.mx = TimeConverter().max_nsec

    # -- dimension groups
    def group(self):
        r = self.r
        k = r.choice([0, 1, 1, 2, 2, 2, 3, 3, 4])
        return self.u.conform(r.sample(DIM_POOL, k))

    def value_for(self, dim):
        r = self.r
        if self.u.dimensions[dim].primaryKey.getPythonType() is int:
            return r.choice([0, 1, 5, 42, 20200101, 2**40, 903342])
        if dim in ("instrument", "skymap"):
            return r.choice(["Cam", "HSC", "Sky Map", "Nåme"])
        return r.choice([s for s in STRS if s])

    def data_id_values(self, g):
        return {d: self.value_for(d) for d in g.names}

    def timespan(self):
        from lsst.daf.butler import Timespan
        r, mx = self.r, self.mx
        kind = r.choice(["unb", "left", "right", "mid", "mid", "empty", "tiny", "edge"])
        if kind == "unb":
            ns = (0, mx)
        elif kind == "left":
            ns = (0, r.randrange(1, mx))
        elif kind == "right":
            ns = (r.randrange(0, mx - 1), mx)
        elif kind == "empty":
            ns = (mx, 0)
        elif kind == "tiny":
            b = r.randrange(0, mx - 1)
            ns = (b, b + 1)
        elif kind == "edge":
            ns = r.choice([(0, 1), (mx - 1, mx), (1, mx - 1)])
        else:
            a, b = sorted(r.sample(range(0, mx), 2))
            ns = (a, b)
        return Timespan(None, None, _nsec=ns)

    def region(self):
        import lsst.sphgeom as sg
        r = self.r
        k = r.choice(["circle", "poly", "box"])
        v = sg.UnitVector3d(sg.LonLat.fromDegrees(r.uniform(0, 360), r.uniform(-80, 80)))
        if k == "circle":
            return sg.Circle(v, sg.Angle.fromDegrees(r.uniform(0.01, 2)))
        if k == "box":
            lon, lat = r.uniform(0, 300), r.uniform(-70, 60)
            return sg.Box.fromDegrees(lon, lat, lon + r.uniform(0.1, 3), lat + r.uniform(0.1, 3))
        lon, lat = r.uniform(10, 300), r.uniform(-60, 60)
        pts = [sg.UnitVector3d(sg.LonLat.fromDegrees(lon + dx, lat + dy)) for dx, dy in ((0, 0), (1, 0), (1, 1), (0, 1))]
        return sg.ConvexPolygon(pts)

    def field_value(self, typ, nullable):
        r = self.r
        if nullable and r.random() < 0.4:
            return None
        if typ == "int":
            return r.choice([0, 1, -3, 7, 2**33, 99])
        if typ == "string":
            return r.choice(STRS)
        if typ == "float":
            return r.choice([0.0, 1.5, 30.0, -2.25, 1e3, 0.25])
        if typ == "bool":
            return r.random() < 0.5
        if typ == "hash":
            return bytes(r.randrange(256) for _ in range(r.choice([1, 4, 32])))
        if typ == "region":
            return self.region()
        if typ == "timespan":
            return self.timespan()
        raise ValueError(typ)

    def record(self, el, vals):
        """Record of element `el` consistent with the data ID values `vals`."""
        kw = {}
        sch = el.schema
        dims = set(el.required.names)
        for name in sch.required.names:
            kw[name] = vals[name] if name in dims else vals[el.name]
        for name in sch.implied.names:
            kw[name] = vals[name]
        for f in sch.remainder:
            kw[f.name] = self.field_value(f.type, f.nullable)
        return el.RecordClass(**kw)

    def records_for(self, g, vals, null_prob):
        out = {}
        for name in g.elements:
            el = self.u[name]
            is_dim = name in self.u.dimensions.names
            if not is_dim and self.r.random() < null_prob:
                out[name] = None
            else:
                out[name] = self.record(el, vals)
        return out

    def coord(self, g=None, state=None):
        from lsst.daf.butler import DataCoordinate
        g = g if g is not None else self.group()
        vals = self.data_id_values(g)
        state = state or self.r.choice(["required", "full", "expanded", "expanded", "expanded_null"])
        if not g:
            return DataCoordinate.make_empty(self.u), "empty"
        if state == "required":
            return DataCoordinate.from_required_values(g, tuple(vals[k] for k in g.required)), state
        full = DataCoordinate.from_full_values(g, tuple(vals[k] for k in g.data_coordinate_keys))
        if state == "full":
            return full, state
        recs = self.records_for(g, vals, 0.0 if state == "expanded" else 0.6)
        return full.expanded(recs), state

    def dataset_type(self, g=None):
        from lsst.daf.butler import DatasetType
        r = self.r
        g = g if g is not None else self.group()
        name = r.choice(["bias", "flat", "calexp", "raw_2", "_x", "deepCoadd_calexp", "src"]) + r.choice(["", "", "_b", "9"])
        cal = r.random() < 0.3
        if r.random() < 0.35:
            comp = r.choice(["wcs", "psf", "image", "metadata"])
            parent = r.choice(["Exposure", "ExposureF"])
            return DatasetType(f"{name}.{comp}", g, self._compsc(parent, comp), parentStorageClass=parent, isCalibration=cal)
        return DatasetType(name, g, r.choice(SC_PLAIN + ["Exposure", "ExposureF"]), isCalibration=cal)

    def _compsc(self, parent, comp):
        from lsst.daf.butler import StorageClassFactory
        return StorageClassFactory().getStorageClass(parent).allComponents()[comp].name

    def fixed_coord(self, which):
        """deterministic regression instances (corpus): visit+detector data ID with None records"""
        from lsst.daf.butler import DataCoordinate
        g = self.u.conform(["visit", "detector"])
        vals = {"instrument": "Cam", "visit": 5, "detector": 1, "band": "g", "physical_filter": "g2", "day_obs": 20200101}
        full = DataCoordinate.from_full_values(g, tuple(vals[k] for k in g.data_coordinate_keys))
        if which.startswith("all_none"):
            recs = {k: None for k in g.elements}
        else:
            recs = self.records_for(g, vals, 0.0)
            recs["visit_detector_region"] = None
        return full.expanded(recs), "expanded_null"

    def ref(self, fixed=None):
        from lsst.daf.butler import DatasetRef
        g = self.group() if fixed is None else self.u.conform(["visit", "detector"])
        dt = self.dataset_type(g)
        c, state = self.coord(g) if fixed is None else self.fixed_coord(fixed)
        run = self.r.choice(["run1", "u/someone/run", "r", "a b"])
        return DatasetRef(dt, c, run=run, id=uuid.UUID(int=self.r.getrandbits(128))), state


# ---- abstraction (instance -> the model's data), written from the public attributes only -------------

TYPEMAP = {"string": "TStr", "int": "TInt", "float": "TFlt", "bool": "TBool", "hash": "THash", "region": "TRegion", "timespan": "TTs"}


def abs_group(g):
    return {"names": list(g.names), "req": list(g.required), "impl": list(g.implied), "elems": list(g.elements)}


def abs_fval(v):
    import lsst.sphgeom as sg
    from lsst.daf.butler import Timespan
    if v is None:
        return ["FNull"]
    if isinstance(v, bool):
        return ["FBool", v]
    if isinstance(v, int):
        return ["FInt", v]
    if isinstance(v, float):
        return ["FFlt", int(v * 4)]
    if isinstance(v, str):
        return ["FStr", v]
    if isinstance(v, bytes):
        return ["FHash", v.hex()]
    if isinstance(v, Timespan):
        return ["FTs", list(v.nsec)]
    if isinstance(v, sg.Region):
        return ["FRegion", v.encode().hex()]
    raise TypeError(type(v))


def abs_record(rec):
    return {"def": rec.definition.name, "fields": [[n, abs_fval(getattr(rec, n))] for n in rec.__slots__]}


def abs_schema(el):
    types = {f.name: (TYPEMAP[f.type], bool(f.nullable)) for f in el.schema.all}
    return [[n, types[n][0], types[n][1]] for n in el.RecordClass.__slots__]


def abs_coord(c):
    g = c.dimensions
    keys = list(g.data_coordinate_keys) if c.hasFull() else list(g.required)
    recs = None
    if c.hasRecords():
        recs = [[k, (abs_record(c.records[k]) if c.records[k] is not None else None)] for k in g.elements]
    return {"grp": abs_group(g), "vals": [[k, c[k]] for k in keys], "recs": recs}


def abs_dt(t):
    return {"name": t.name, "grp": abs_group(t.dimensions), "sc": t.storageClass_name,
            "psc": t._parentStorageClassName, "calib": t.isCalibration()}


def abs_ref(r):
    return {"id": str(r.id), "run": r.run, "type": abs_dt(r.datasetType), "coord": abs_coord(r.dataId)}


def abs_ctx(gen, groups, types=(), refs=()):
    u = gen.u
    conf, elems = [], set()
    seen = set()
    for g in list(groups) + [u.empty]:
        ag = abs_group(g)
        for keyl in (list(g.required), list(g.names), list(g.data_coordinate_keys)):
            k = (tuple(keyl), tuple(g.names))
            if k not in seen:
                seen.add(k)
                conf.append([keyl, ag])
        elems.update(g.elements)
    from lsst.daf.butler import StorageClassFactory
    compsc = []
    for p in ("Exposure", "ExposureF"):
        for c, sc in StorageClassFactory().getStorageClass(p).allComponents().items():
            compsc.append([f"{p}.{c}", sc.name])
    return {"max": gen.mx, "conform": conf, "schema": [[e, abs_schema(u[e])] for e in sorted(elems)],
            "governors": list(u.governor_dimensions.names), "types": [[t.name, abs_dt(t)] for t in types],
            "refs": [[str(r.id), abs_ref(r)] for r in refs], "compsc": compsc}


# ---- observations -----------------------------------------------------------------------------------

def rec_state(c, k):
    try:
        return 1 if c.records[k] is None else 0
    except KeyError:
        return 2
    except Exception:  # noqa: BLE001
        return 3


def obs_coord(orig, got, elems):
    """observations on a data ID that came back from a serialised form"""
    from lsst.daf.butler import DataCoordinate
    o = {"is": isinstance(got, DataCoordinate)}
    if not o["is"]:
        return o
    o["eq"] = bool(got == orig and orig == got)
    o["hash"] = hash(got) == hash(orig)
    o["dims"] = list(got.dimensions.names) == list(orig.dimensions.names)
    o["full"] = got.hasFull()
    o["recs"] = got.hasRecords()
    o["mapping"] = dict(got.mapping) == dict(orig.mapping) if got.hasFull() == orig.hasFull() else None
    o["states"] = [[k, rec_state(got, k)] for k in elems] if got.hasRecords() else [[k, 2] for k in elems]
    o["orig_states"] = [[k, rec_state(orig, k)] for k in elems] if orig.hasRecords() else [[k, 2] for k in elems]
    same = True
    if got.hasRecords() and orig.hasRecords():
        for k in elems:
            if rec_state(got, k) == 0 and rec_state(orig, k) == 0 and not (got.records[k] == orig.records[k]):
                same = False
    o["records_equal"] = same
    try:
        o["reserialise"] = got.to_json() == orig.to_json()
    except Exception as e:  # noqa: BLE001
        o["reserialise"] = _exc(e)
    return o


def forms_coord(c, u, minimal):
    from lsst.daf.butler import DataCoordinate
    out = {}
    elems = list(c.dimensions.elements)

    def do(name, fn):
        try:
            out[name] = obs_coord(c, fn(), elems)
        except Exception as e:  # noqa: BLE001
            out[name] = {"exc": _exc(e), "msg": str(e)[:200]}
    do("simple", lambda: DataCoordinate.from_simple(c.to_simple(minimal=minimal), universe=u))
    do("json", lambda: DataCoordinate.from_json(c.to_json(minimal=minimal), universe=u))
    do("pickle", lambda: pickle.loads(pickle.dumps(c)))     # pickle does not depend on the mode
    return out


def obs_dt(orig, got):
    from lsst.daf.butler import DatasetType
    o = {"is": isinstance(got, DatasetType)}
    if not o["is"]:
        return o
    o["eq"] = bool(got == orig and orig == got)
    o["hash"] = hash(got) == hash(orig)
    o["fields"] = (got.name == orig.name and got.dimensions == orig.dimensions and list(got.dimensions.names) == list(orig.dimensions.names)
                   and got.storageClass_name == orig.storageClass_name and got._parentStorageClassName == orig._parentStorageClassName
                   and got.isCalibration() == orig.isCalibration() and got.component() == orig.component())
    return o


CLS = {"_RequiredTupleDataCoordinate": "ClsRequired", "_FullTupleDataCoordinate": "ClsFull",
       "_ExpandedTupleDataCoordinate": "ClsExpanded"}


def red_group(g):
    """DimensionGroup.__getnewargs__: (universe, names._seq, False)"""
    a = g.__getnewargs__()
    return list(a[1])


def red_record(rec):
    """DimensionRecord.__reduce__: (_reconstructDimensionRecord, (definition, {slot: value}))"""
    _, (definition, mapping) = rec.__reduce__()[:2]
    return {"def": definition.name, "fields": [[n, abs_fval(v)] for n, v in mapping.items()]}


def red_coord(c):
    """What DataCoordinate.__reduce__ hands to pickle, inner objects reduced as well."""
    fn, args = c.__reduce__()[:2]
    recs = None
    if len(args) > 2:
        recs = [[k, None if r is None else red_record(r)] for k, r in args[2].items()]
    return {"cls": CLS.get(getattr(fn, "__name__", ""), "Other:" + repr(fn)[:60]), "names": red_group(args[0]),
            "vals": list(args[1]), "recs": recs}


def red_dt(t):
    """DatasetType.__reduce__: (_unpickle_via_factory, (cls, (name, dimensions, sc, psc), {isCalibration}))"""
    _, (cls, a, kw) = t.__reduce__()[:2]
    return {"name": a[0], "names": red_group(a[1]), "sc": a[2], "psc": a[3], "calib": bool(kw.get("isCalibration", False))}


def red_ref(r):
    """DatasetRef.__reduce__: (_unpickle, (datasetType, dataId, id, run, datastore_records))"""
    _, a = r.__reduce__()[:2]
    return {"dt": red_dt(a[0]), "coord": red_coord(a[1]), "id": str(a[2]), "run": a[3]}


def _try(fn):
    try:
        return fn()
    except Exception as e:  # noqa: BLE001
        return {"exc": _exc(e), "msg": str(e)[:200]}


class FakeRegistry:
    """Stands in for Registry in the minimal forms: only the documented calls from_simple makes."""

    def __init__(self, u, types=(), refs=()):
        self.dimensions = u
        self._t = {t.name: t for t in types}
        self._r = {r.id: r for r in refs}

    def getDatasetType(self, name):
        return self._t[name]

    def getDataset(self, id):
        return self._r.get(id)


def serial_cases(payload):
    """payload: {seed, n, kinds}; returns a list of case dicts"""
    from lsst.daf.butler import DataCoordinate, DatasetRef, DatasetType, DimensionGroup, DimensionRecord, Timespan
    import yaml

    gen = Gen(payload.get("seed", 0))
    u = gen.u
    out = []
    plan = [(i, kind, None) for i in range(payload.get("n", 0)) for kind in payload.get("kinds", [])]
    plan += [(i, "ref" if f.endswith("_ref") else "coord", f) for i, f in enumerate(payload.get("fixed", []))]
    for i, kind, fixed in plan:
        if True:
            case = {"kind": kind, "idx": i}
            if fixed:
                case["fixed"] = fixed
            try:
                if kind == "ts":
                    t = gen.timespan()
                    case["inst"] = list(t.nsec)
                    case["max"] = gen.mx
                    case["wire"] = _wire(t.model_dump_json())
                    y = yaml.dump(t)
                    ylo = yaml.safe_load(y)
                    case["yaml"] = "EMPTY" if t.isEmpty() and "EMPTY" in y else [
                        None if t.begin is None else t.nsec[0], None if t.end is None else t.nsec[1]]
                    forms = {"json": Timespan.model_validate_json(t.model_dump_json()), "python": Timespan.model_validate(t.model_dump()),
                             "pickle": pickle.loads(pickle.dumps(t)), "yaml": ylo}
                    case["forms"] = {k: {"is": isinstance(v, Timespan), "eq": v == t, "hash": hash(v) == hash(t),
                                         "nsec": list(v.nsec) == list(t.nsec), "bounds": (v.begin is None) == (t.begin is None) and (v.end is None) == (t.end is None)}
                                     for k, v in forms.items()}
                    case["feat"] = "empty" if t.isEmpty() else ("unb" if t.begin is None or t.end is None else "bounded")
                elif kind == "grp":
                    g = gen.group()
                    case["inst"] = abs_group(g)
                    case["ctx"] = abs_ctx(gen, [g])
                    case["wire"] = _jsonable(g.to_simple())
                    forms = {"simple": DimensionGroup.from_simple(g.to_simple(), u), "pickle": pickle.loads(pickle.dumps(g)),
                             "json": DimensionGroup.from_simple(json.loads(json.dumps(g.to_simple())), u)}
                    case["forms"] = {k: {"is": isinstance(v, DimensionGroup), "eq": v == g, "hash": hash(v) == hash(g),
                                         "fields": list(v.names) == list(g.names) and list(v.required) == list(g.required) and list(v.elements) == list(g.elements)}
                                     for k, v in forms.items()}
                    case["feat"] = f"n{len(g.names)}"
                elif kind == "rec":
                    g = gen.group()
                    while not g:
                        g = gen.group()
                    vals = gen.data_id_values(g)
                    el = u[gen.r.choice(list(g.elements))]
                    rec = gen.record(el, vals)
                    case["inst"] = abs_record(rec)
                    case["ctx"] = abs_ctx(gen, [g])
                    case["wire"] = _wire(rec.to_json())
                    forms = {}
                    for k, fn in (("simple", lambda: DimensionRecord.from_simple(rec.to_simple(), universe=u)),
                                  ("json", lambda: DimensionRecord.from_json(rec.to_json(), universe=u)),
                                  ("pickle", lambda: pickle.loads(pickle.dumps(rec)))):
                        try:
                            v = fn()
                            forms[k] = {"is": type(v) is type(rec), "eq": v == rec and rec == v, "hash": hash(v) == hash(rec),
                                        "fields": all(getattr(v, n) == getattr(rec, n) and type(getattr(v, n)) is type(getattr(rec, n)) for n in rec.__slots__),
                                        "dataId": v.dataId == rec.dataId}
                        except Exception as e:  # noqa: BLE001
                            forms[k] = {"exc": _exc(e), "msg": str(e)[:200]}
                    case["forms"] = forms
                    nulls = sum(1 for n in rec.__slots__ if getattr(rec, n) is None)
                    case["feat"] = f"{el.name}:{'nulls' if nulls else 'nonull'}"
                elif kind == "coord":
                    c, state = gen.coord() if fixed is None else gen.fixed_coord(fixed)
                    minimal = gen.r.random() < 0.3 and fixed is None
                    case["minimal"] = minimal
                    case["inst"] = abs_coord(c)
                    case["ctx"] = abs_ctx(gen, [c.dimensions])
                    case["wire"] = _wire(c.to_json(minimal=minimal))
                    case["forms"] = forms_coord(c, u, minimal)
                    case["reduce"] = _try(lambda: red_coord(c))
                    case["pickle_state"] = _try(lambda: obs_coord(c, pickle.loads(pickle.dumps(c)), list(c.dimensions.elements)))
                    case["orig"] = {"full": c.hasFull(), "recs": c.hasRecords(), "empty": not c.dimensions,
                                    "states": [[k, rec_state(c, k)] for k in c.dimensions.elements] if c.hasRecords() else [[k, 2] for k in c.dimensions.elements]}
                    case["feat"] = f"{state}:{'min' if minimal else 'full'}"
                elif kind == "dt":
                    t = gen.dataset_type()
                    minimal = gen.r.random() < 0.25
                    reg = FakeRegistry(u, [t])
                    case["minimal"] = minimal
                    case["inst"] = abs_dt(t)
                    case["ctx"] = abs_ctx(gen, [t.dimensions], types=[t])
                    case["wire"] = _wire(t.to_json(minimal=minimal))
                    case["reduce"] = _try(lambda: red_dt(t))
                    forms = {}
                    for k, fn in (("simple", lambda: DatasetType.from_simple(t.to_simple(minimal=minimal), universe=u, registry=reg if minimal else None)),
                                  ("json", lambda: DatasetType.from_json(t.to_json(minimal=minimal), universe=u, registry=reg if minimal else None)),
                                  ("pickle", lambda: pickle.loads(pickle.dumps(t)))):
                        try:
                            forms[k] = obs_dt(t, fn())
                        except Exception as e:  # noqa: BLE001
                            forms[k] = {"exc": _exc(e), "msg": str(e)[:200]}
                    case["forms"] = forms
                    case["feat"] = f"{'comp' if t.isComponent() else 'plain'}:{'cal' if t.isCalibration() else 'nocal'}:{'min' if minimal else 'full'}"
                elif kind == "ref":
                    r, state = gen.ref(fixed)
                    minimal = gen.r.random() < 0.25 and fixed is None
                    parent = r.makeCompositeRef() if r.isComponent() else r
                    reg = FakeRegistry(u, [r.datasetType, parent.datasetType], [parent])
                    case["minimal"] = minimal
                    case["inst"] = abs_ref(r)
                    case["ctx"] = abs_ctx(gen, [r.datasetType.dimensions], types=[r.datasetType], refs=[parent])
                    case["wire"] = _wire(r.to_json(minimal=minimal))
                    elems = list(r.dataId.dimensions.elements)
                    case["reduce"] = _try(lambda: red_ref(r))
                    case["pickle_state"] = _try(lambda: obs_coord(r.dataId, pickle.loads(pickle.dumps(r)).dataId, elems))
                    forms = {}
                    for k, fn in (("simple", lambda: DatasetRef.from_simple(r.to_simple(minimal=minimal), universe=u, registry=reg if minimal else None)),
                                  ("json", lambda: DatasetRef.from_json(r.to_json(minimal=minimal), universe=u, registry=reg if minimal else None)),
                                  ("pickle", lambda: pickle.loads(pickle.dumps(r)))):
                        try:
                            v = fn()
                            o = {"is": isinstance(v, DatasetRef)}
                            if o["is"]:
                                o["eq"] = bool(v == r and r == v)
                                o["hash"] = hash(v) == hash(r)
                                o["run"] = v.run
                                o["run_eq"] = v.run == r.run
                                o["id"] = v.id == r.id
                                o["dt"] = obs_dt(r.datasetType, v.datasetType)
                                o["coord"] = obs_coord(r.dataId, v.dataId, elems)
                            forms[k] = o
                        except Exception as e:  # noqa: BLE001
                            forms[k] = {"exc": _exc(e), "msg": str(e)[:200]}
                    case["forms"] = forms
                    c = r.dataId
                    case["orig"] = {"full": c.hasFull(), "recs": c.hasRecords(), "empty": not c.dimensions,
                                    "states": [[k, rec_state(c, k)] for k in elems] if c.hasRecords() else [[k, 2] for k in elems]}
                    case["feat"] = f"{state}:{'comp' if r.isComponent() else 'plain'}:{'min' if minimal else 'full'}"
            except Exception as e:  # noqa: BLE001  (generation / to_* itself failed: the oracle reports it)
                import traceback
                case["gen_exc"] = f"{_exc(e)}: {e}"[:300]
                case["tb"] = traceback.format_exc()[-600:]
            out.append(case)
    return out


# ----------------------------------------------------------------------------------------------------
# Round trips INSIDE one PersistenceContextVars().run(...): the per-context memo tables of from_simple are live
# across the whole batch; batches contain colliding memo keys on purpose
# ----------------------------------------------------------------------------------------------------

CONV_SC = ["DataFrame", "ArrowAstropy", "ArrowTable"]   # mutually convertible (overrideStorageClass accepts them)


def _diff_dt(o, g, prefix=""):
    d = []
    if g.name != o.name:
        d.append(prefix + "name")
    if g.storageClass_name != o.storageClass_name:
        d.append(prefix + "storageClass")
    if list(g.dimensions.names) != list(o.dimensions.names):
        d.append(prefix + "dimensions")
    if g.isCalibration() != o.isCalibration():
        d.append(prefix + "isCalibration")
    if g._parentStorageClassName != o._parentStorageClassName:
        d.append(prefix + "parentStorageClass")
    if not d and not (g == o and o == g and hash(g) == hash(o)):
        d.append(prefix + "eq-or-hash")
    return d


def _diff_coord(o, g):
    """which documented aspect of the data ID that came back differs from the original"""
    d = []
    elems = list(o.dimensions.elements)
    if list(g.dimensions.names) != list(o.dimensions.names) or not (g == o and o == g):
        d.append("values")
    elif hash(g) != hash(o):
        d.append("hash")
    if g.hasFull() != o.hasFull():
        d.append("hasFull")
    elif g.hasFull() and "values" not in d and dict(g.mapping) != dict(o.mapping):
        d.append("implied")
    if g.hasRecords() != o.hasRecords():
        d.append("hasRecords")
    elif g.hasRecords() and "values" not in d:
        for k in elems:
            sg, so = rec_state(g, k), rec_state(o, k)
            if sg != so or (sg == 0 and not (g.records[k] == o.records[k])):
                d.append("records")
                break
    return d


def _ctx_obs(kind, o, g):
    """observations on one object read back inside the context (computed after the context is left)"""
    from lsst.daf.butler import DataCoordinate, DatasetRef, DatasetType, DimensionRecord
    if isinstance(g, Exception):
        return {"exc": _exc(g), "msg": str(g)[:200], "diff": ["raised"], "wout": None}
    out = {}
    if kind == "dt":
        if not isinstance(g, DatasetType):
            return {"diff": ["type"], "wout": None}
        out["diff"] = _diff_dt(o, g)
        out["wout"] = _wire(g.to_json())
    elif kind == "coord":
        if not isinstance(g, DataCoordinate):
            return {"diff": ["type"], "wout": None}
        out["diff"] = _diff_coord(o, g)
        out["wout"] = _wire(g.to_json())
        out["state"] = {"full": g.hasFull(), "recs": g.hasRecords(),
                        "states": [[k, rec_state(g, k)] for k in g.dimensions.elements] if g.hasRecords() else [[k, 2] for k in g.dimensions.elements]}
    elif kind == "rec":
        if not isinstance(g, DimensionRecord):
            return {"diff": ["type"], "wout": None}
        d = []
        if type(g) is not type(o) or not (g == o and o == g) or hash(g) != hash(o):
            d.append("eq-or-hash")
        elif not all(getattr(g, n) == getattr(o, n) for n in o.__slots__):
            d.append("fields")
        out["diff"] = d
        out["wout"] = _wire(g.to_json())
    elif kind == "ref":
        if not isinstance(g, DatasetRef):
            return {"diff": ["type"], "wout": None}
        d = []
        if g.id != o.id:
            d.append("id")
        if g.run != o.run:
            d.append("run")
        d += _diff_dt(o.datasetType, g.datasetType, "datasetType.")
        if _diff_coord(o.dataId, g.dataId):
            d.append("dataId")
        if not d and not (g == o and o == g and hash(g) == hash(o)):
            d.append("eq-or-hash")
        out["diff"] = d
        out["wout"] = _wire(g.to_json())
        c = g.dataId
        out["state"] = {"full": c.hasFull(), "recs": c.hasRecords(),
                        "states": [[k, rec_state(c, k)] for k in c.dimensions.elements] if c.hasRecords() else [[k, 2] for k in c.dimensions.elements]}
    return out


def _abs_any(kind, o):
    return {"dt": abs_dt, "coord": abs_coord, "rec": abs_record, "ref": abs_ref}[kind](o)


def _run_in_context(u, items):
    """items: [(kind, original)] -> [(kind, original, json, result-or-exception)]; ONE context for the whole list"""
    from lsst.daf.butler import DataCoordinate, DatasetRef, DatasetType, DimensionRecord
    from lsst.daf.butler.persistence_context import PersistenceContextVars
    cls = {"dt": DatasetType, "coord": DataCoordinate, "rec": DimensionRecord, "ref": DatasetRef}
    ser = [(k, o, o.to_json()) for k, o in items]          # written outside the context

    def read_all():
        res = []
        for k, o, s in ser:
            try:
                res.append(cls[k].from_json(s, universe=u))
            except Exception as e:  # noqa: BLE001
                res.append(e)
        return res

    got = PersistenceContextVars().run(read_all)
    return [(k, o, s, g) for (k, o, s), g in zip(ser, got)]


def _ctx_batch(gen):
    """the four per-kind item lists of one batch, with colliding memo keys"""
    from lsst.daf.butler import DataCoordinate, DatasetRef, DatasetType
    r, u = gen.r, gen.u
    g1 = gen.group()
    while not g1 or not g1.implied:
        g1 = gen.group()
    g2 = gen.group()
    while not g2 or g2 == g1:
        g2 = gen.group()
    name = r.choice(["bias", "flat", "calexp", "raw_2", "_x", "src"]) + r.choice(["", "_b", "9"])
    sc1, sc2 = r.sample(["StructuredDataDict", "Wcs", "Catalog", "Exposure", "ExposureF", "DataFrame"], 2)
    comp = r.choice(["wcs", "psf", "image", "metadata"])
    # -- dataset types: same name / other storage class (must be distinct objects), same (name, sc) / other dimensions,
    #    calibration flag, parent storage class; duplicates; another name
    dts = [DatasetType(name, g1, sc1), DatasetType(name, g1, sc2), DatasetType(name, g2, sc1),
           DatasetType(name, g1, sc1, isCalibration=True),
           DatasetType(f"{name}.{comp}", g1, gen._compsc("Exposure", comp), parentStorageClass="Exposure"),
           DatasetType(f"{name}.{comp}", g1, gen._compsc("ExposureF", comp), parentStorageClass="ExposureF"),
           DatasetType(name + "_o", g2, sc1), DatasetType(name, g1, sc1), DatasetType(name, g1, sc2)]
    r.shuffle(dts)
    # -- data IDs over g1: full / other implied value / required only / expanded with two different record sets /
    #    expanded with a None record / duplicate / other required values
    v = gen.data_id_values(g1)

    def full(vals):
        return DataCoordinate.from_full_values(g1, tuple(vals[k] for k in g1.data_coordinate_keys))
    v_imp = dict(v)
    k_imp = r.choice(list(g1.implied))
    for _ in range(20):
        v_imp[k_imp] = gen.value_for(k_imp)
        if v_imp[k_imp] != v[k_imp]:
            break
    v2 = dict(v)
    k_req = r.choice(list(g1.required))
    for _ in range(20):
        v2[k_req] = gen.value_for(k_req)
        if v2[k_req] != v[k_req]:
            break
    c0, c7 = full(v), full(v2)
    recs1 = gen.records_for(g1, v, 0.0)
    recs2 = gen.records_for(g1, v, 0.0)
    recs3 = dict(recs1)
    nondim = [e for e in g1.elements if e not in u.dimensions.names]
    if nondim:
        recs3[r.choice(nondim)] = None
    c3 = c0.expanded(recs1)
    coords = [c0, full(v_imp), DataCoordinate.from_required_values(g1, tuple(v[k] for k in g1.required)),
              c3, c0.expanded(recs2), c0.expanded(recs3), full(v), c7]
    r.shuffle(coords)
    # -- records: the same key fields with other payload fields, a duplicate
    el = u[r.choice(list(g1.elements))]
    rec0 = gen.record(el, v)
    recs = [rec0, gen.record(el, v), rec0, gen.record(el, v2)]
    r.shuffle(recs)
    # -- refs: in this list (name, storage class) determines the type and the data ID values determine the data ID (the
    #    tables nested inside DatasetRef.from_simple stay consistent); the collisions are on the ref id
    nr = name + "_r"
    sa, sb = r.sample(CONV_SC, 2)
    ta, tb = DatasetType(nr, g1, sa), DatasetType(nr, g1, sb)
    tc = DatasetType(f"{nr}c.{comp}", g1, gen._compsc("Exposure", comp), parentStorageClass="Exposure")
    tp = tc.makeCompositeDatasetType()
    ids = [uuid.UUID(int=r.getrandbits(128)) for _ in range(4)]
    refs = [DatasetRef(ta, c0, run="run1", id=ids[0]), DatasetRef(tb, c0, run="run1", id=ids[1]),
            DatasetRef(ta, c0, run="run2", id=ids[0]), DatasetRef(ta, c7, run="run1", id=ids[0]),
            DatasetRef(tb, c0, run="run1", id=ids[0]), DatasetRef(tc, c0, run="run1", id=ids[2]),
            DatasetRef(tp, c0, run="run1", id=ids[2]), DatasetRef(ta, c3, run="u/x", id=ids[3]),
            DatasetRef(ta, c0, run="run1", id=ids[0])]
    r.shuffle(refs)
    return {"dt": dts, "coord": coords, "rec": recs, "ref": refs}, [g1, g2]


def context_cases(payload):
    """payload: {seed, n}: n batches; each batch = four per-kind contexts (compared with the memo-table model) and one
    mixed context holding everything (oracle only)"""
    gen = Gen(payload["seed"])
    u = gen.u
    out = []
    for b in range(payload["n"]):
        try:
            lists, groups = _ctx_batch(gen)
        except Exception as e:  # noqa: BLE001
            import traceback
            out.append({"kind": "gen", "gen_exc": f"{_exc(e)}: {e}"[:300], "tb": traceback.format_exc()[-600:], "items": []})
            continue
        ctxd = abs_ctx(gen, groups)
        for kind, objs in lists.items():
            res = _run_in_context(u, [(kind, o) for o in objs])
            items = []
            for k, o, s, g in res:
                it = {"kind": k, "inst": _abs_any(k, o), "win": _wire(s)}
                it.update(_try(lambda: _ctx_obs(k, o, g)))
                it.setdefault("diff", ["observation-raised"])
                items.append(it)
            out.append({"kind": kind, "batch": b, "seed": payload["seed"], "ctx": ctxd, "items": items})
        mixed = [(k, o) for k, objs in lists.items() for o in objs]
        gen.r.shuffle(mixed)
        res = _run_in_context(u, mixed)
        items = []
        for k, o, s, g in res:
            it = {"kind": k, "inst": _abs_any(k, o), "win": _wire(s)}
            it.update(_try(lambda: _ctx_obs(k, o, g)))
            it.setdefault("diff", ["observation-raised"])
            it.pop("wout", None)
            items.append(it)
        out.append({"kind": "mixed", "batch": b, "seed": payload["seed"], "items": items})
    return out


# ----------------------------------------------------------------------------------------------------
# Config
# ----------------------------------------------------------------------------------------------------

KEY_ALPHABET = ["a", "b", "c", "x1", "key", "0", "1", "10", "-1", " 1", "", "a.b", ".", "..", "a/b", "/", ":", "a:b", "|", "→", "a→b",
                "↓", "é", "日本", "λ", "a\\", "\\", "a\\b", "\\a", "a\\.b", "a\\\\", "\r", "a\rb", "\n", " ", "True", "None",
                "includeConfigsX", "A_B", "~", "#", "a b", "\t", "@x", "→→", "a\\→"]
SAFE_KEYS = ["a", "b", "c", "x1", "key", "0", "1", "a.b", "a/b", "é", "λ", "a b", "A_B", "a\\b", "", "#", "日本"]
EXPLICIT_DELIMS = [".", "/", ":", "|", "~", "→", "#", " ", "@"]


def enc_key(k):
    if isinstance(k, bool):
        return {"b": k}
    if k is None:
        return {"n": 0}
    if isinstance(k, int):
        return {"i": k}
    return {"s": k}


def enc_tree(v):
    if isinstance(v, dict):
        return {"__d": [[enc_key(k), enc_tree(x)] for k, x in v.items()]}
    if isinstance(v, list):
        return [enc_tree(x) for x in v]
    if isinstance(v, float):
        return {"__f": int(v * 4)}
    return v


def dec_key(k):
    if "b" in k:
        return k["b"]
    if "n" in k:
        return None
    if "i" in k:
        return k["i"]
    return k["s"]


def dec_tree(v):
    if isinstance(v, dict):
        if "__d" in v:
            return {dec_key(k): dec_tree(x) for k, x in v["__d"]}
        return v["__f"] / 4
    if isinstance(v, list):
        return [dec_tree(x) for x in v]
    return v


def gen_tree(r, depth, hostile, nonstring):
    def key():
        if nonstring and r.random() < 0.25:
            return r.choice([1, 0, 2, -5, True, False, None, 10])
        return r.choice(KEY_ALPHABET if hostile else SAFE_KEYS)

    def val(d):
        x = r.random()
        if d <= 0 or x < 0.45:
            return r.choice([1, 0, -7, "v", "", "a.b", None, True, False, 2.5, "→", "x\\", "0", "abc"])
        if x < 0.8:
            return {key(): val(d - 1) for _ in range(r.choice([0, 1, 1, 2, 3]))}
        return [val(d - 1) for _ in range(r.choice([0, 1, 2, 3]))]

    return {key(): val(depth) for _ in range(r.choice([1, 1, 2, 3, 4]))}


def _outcome(fn):
    try:
        return {"ok": enc_tree(_plain(fn()))}
    except KeyError:
        return {"err": "KeyErr"}
    except ValueError:
        return {"err": "ValueErr"}
    except TypeError:
        return {"err": "TypeErr"}
    except IndexError:
        return {"err": "IndexErr"}
    except Exception as e:  # noqa: BLE001
        return {"err": "Other:" + _exc(e)}


def _plain(v):
    from lsst.daf.butler import Config
    if isinstance(v, Config):
        return _plain(v._data) if not hasattr(v, "toDict") else _plain(dict(v._data))
    if isinstance(v, dict):
        return {k: _plain(x) for k, x in v.items()}
    if isinstance(v, list):
        return [_plain(x) for x in v]
    return v


def _walk(tree, path):
    """The value a key path denotes, by plain indexing of the original tree (the oracle's reference)."""
    d = tree
    for k in path:
        d = d[k]
    return d


def config_one(tree, delim, probes_extra, r=None):
    """All observations on one tree.  `delim` None = names() chooses."""
    from lsst.daf.butler import Config
    import copy

    c = Config(copy.deepcopy(tree))
    obs = {"tree": enc_tree(tree), "delim": delim}
    try:
        names = c.names() if delim is None else c.names(delimiter=delim)
        obs["names"] = names
    except ValueError as e:
        obs["names"] = None
        obs["names_err"] = str(e)[:100]
        names = []
    tuples = c.nameTuples()
    obs["tuples"] = [[enc_key(k) for k in t] for t in tuples]
    # reference values by plain indexing (independent of Config's key logic)
    ref = []
    for t in tuples:
        ref.append(enc_tree(_plain(_walk(tree, t))))
    obs["ref"] = ref
    obs["lookups"] = [[n, _outcome(lambda n=n: c[n]), _outcome(lambda n=n: n in c)] for n in names]
    obs["tlookups"] = [[[enc_key(k) for k in t], _outcome(lambda t=t: c[t]), _outcome(lambda t=t: t in c)] for t in tuples]
    obs["extra"] = [[n, _outcome(lambda n=n: c[n]), _outcome(lambda n=n: n in c)] for n in probes_extra]
    chars = set("".join(names) + "".join(probes_extra) + (delim or ""))
    for t in tuples:
        for k in t:
            chars.update(str(k))
    chars.update(chr(cp) for cp in range(0x2192, 0x2192 + 102))
    obs["alnum"] = sorted(ord(ch) for ch in chars if ch.isalnum())
    obs["arrows_nonalnum"] = all(not chr(cp).isalnum() for cp in range(0x2192, 0x2192 + 102))
    # round trips of the tree itself
    rt = {}
    strkeys = _all_str_keys(tree)
    for name, fn in (("copy", lambda: Config(c)), ("pickle", lambda: pickle.loads(pickle.dumps(c))),
                     ("yaml", lambda: Config.fromString(c.dump(format="yaml"), format="yaml")),
                     ("yaml2", lambda: Config.fromYaml(c.dump())),
                     ("json", (lambda: Config.fromString(c.dump(format="json"), format="json")) if strkeys else None)):
        if fn is None:
            continue
        try:
            v = fn()
            rt[name] = {"eq": bool(v == c and c == v and _plain(v) == tree), "names": (sorted(v.names()) == sorted(c.names())) if obs["names"] is not None and delim is None else True,
                        "types": _same_types(_plain(v), tree)}
        except Exception as e:  # noqa: BLE001
            rt[name] = {"exc": _exc(e), "msg": str(e)[:200]}
    obs["rt"] = rt
    return obs


def _all_str_keys(v):
    if isinstance(v, dict):
        return all(isinstance(k, str) and _all_str_keys(x) for k, x in v.items())
    if isinstance(v, list):
        return all(_all_str_keys(x) for x in v)
    return True


def _same_types(a, b):
    if type(a) is not type(b):
        return False
    if isinstance(a, dict):
        return len(a) == len(b) and all(k in b and _same_types(x, b[k]) for k, x in a.items())
    if isinstance(a, list):
        return len(a) == len(b) and all(_same_types(x, y) for x, y in zip(a, b))
    return True


def mutate_names(r, names, tree):
    """extra lookup probes: reported names with small edits, other delimiters, near misses"""
    out = []
    for n in names[:6]:
        if not n:
            continue
        d = n[0]
        body = n[1:]
        cands = [n + d + "0", n + d + "-1", n + d + " 1", n + d + "zz", d + body + d, body, "." + body.replace(d, "."), "/" + body.replace(d, "/"),
                 n.replace(d, d + d, 1), n + d + "1_0", n + d + "+0", n + BS, d + BS + body, n.replace(d, BS + d)]
        out.extend(r.sample(cands, 3))
    out.extend(r.sample(["a", "zz", ".a.b", ".a.0", "/a/b", ".0", ".a.-1", ".a..b", ":a", "→a", "→a→b", ".a.b.c", ". a", ".a\\.b", ".a.b\\", "..", "."], 4))
    return [x for x in out if x != ""][:16] + ([""] if r.random() < 0.2 else [])


def config_cases(payload):
    """payload: {seed, n} or {trees: [{tree, delim, extra}]} (corpus / replay)"""
    out = []
    if "trees" in payload:
        for t in payload["trees"]:
            out.append(config_one(dec_tree(t["tree"]), t.get("delim"), t.get("extra", [])))
        return out
    r = random.Random(payload["seed"])
    for i in range(payload["n"]):
        mode = r.choice(["safe", "safe", "hostile", "hostile", "hostile", "nonstring"])
        tree = gen_tree(r, r.choice([1, 2, 2, 3]), hostile=(mode != "safe"), nonstring=(mode == "nonstring"))
        delim = r.choice(EXPLICIT_DELIMS) if r.random() < 0.35 else None
        from lsst.daf.butler import Config
        import copy
        try:
            c = Config(copy.deepcopy(tree))
            nm = c.names() if delim is None else c.names(delimiter=delim)
        except Exception:  # noqa: BLE001
            nm = []
        o = config_one(tree, delim, mutate_names(r, nm, tree))
        o["mode"] = mode
        out.append(o)
    return out
