"""C20 implementation driver: 2-3 REAL Butler clients (one thread + one Butler each, one SQLite file and one datastore
root) under a COOPERATIVE SCHEDULER, plus the serial reference runs for the oracle.

World (fixed names; every repository is a copy of one template made once per worker call):
  instrument "Cam", detectors 0..3; dataset type "dt" (instrument, detector; StructuredDataDict) registered.
  collections are named by the case ("r0", "r1", "T", "A", "B", ...); content of a dataset = {"v": v}.

Ops (JSON lists) -- one op = one public API call of one client:
  ["regrun", name]                       registry.registerRun                      -> True/False
  ["regcoll", name, "TAGGED"|"CHAINED"]  registry.registerCollection               -> True/False
  ["rmcoll", name]                       registry.removeCollection
  ["put", run, det, v]                   butler.put({"v": v}, "dt", instrument="Cam", detector=det, run=run)
  ["assoc", tag, [refspec..]]            registry.associate(tag, refs)
  ["prune", [refspec..]]                 butler.pruneDatasets(refs, purge=True, unstore=True, disassociate=True)
  ["removerun", name]                    butler.removeRuns([name])
  ["emptytrash"]                         butler._datastore.emptyTrash()
  ["setchain", c, [children]]            butler.collections.redefine_chain
  ["prepend", c, [children]] / ["extend", c, [children]] / ["unchain", c, [children]]
  ["regdt", name, variant]               registry.registerDatasetType (variant 0: StructuredDataDict, 1: StructuredDataList)
  refspec = [run, det]  -> the dataset put by the SET-UP program into (run, det)          (known before the clients start)
          | "own"       -> every dataset this client itself put earlier in its program

Scheduling.  A client parks (gives control back) immediately BEFORE
  * an outermost registry transaction (`Database._transaction` entered while no transaction is active)   -> step "txn"
  * a read outside any transaction (`Database.query` while no transaction is active), but only the FIRST of a run of
    consecutive reads                                                                                       -> step "read"
  * a file operation of the datastore outside any registry transaction (FileResourcePath write/remove/transfer_from)
                                                                                                            -> step "file"
and never inside a transaction, so no client ever waits for SQLite's lock while another is parked holding it.  One
scheduler step = the chosen client runs from its park point to its next park point (or to the end of its program).
schedule = list of naturals; entry k picks the (k mod number-of-unfinished-clients)-th unfinished client; when the list
is exhausted the lowest-numbered unfinished client runs.  The first step of every client runs it up to its first park
point (python-only prefix).  Patches are applied from outside the package (no source hooks).
"""
from __future__ import annotations

import os
import shutil
import sqlite3
import threading
import time
import traceback

from harness.impl import fixture

os.environ["LSST_RESOURCES_NUM_WORKERS"] = "1"
STEP_TIMEOUT = float(os.environ.get("VERIF_C20_STEP_TIMEOUT", "25"))
DGROUPS = [("instrument", "physical_filter"), ("skymap",), ("instrument", "visit"), ("band",)]
CTYPES = {"RUN": 1, "TAGGED": 2, "CHAINED": 3, "CALIBRATION": 4}

_tls = threading.local()
_patched = False

# Dataset ids in creation order.  emptyTrash removes artifacts in the order of its trash query, which is the order of the
# dataset ids (index on dataset_location_trash); with random uuid4 ids that order differs from run to run, and it matters
# when another client's put lands between two removals.  Ids that grow with creation time make the implementation
# deterministic under a schedule (and equal to the model, which removes in creation order).  Harness only; /repo untouched.
import itertools as _it
import uuid as _uuid
_uuid_lock = threading.Lock()
_uuid_ctr = _it.count(1)
_uuid_rand = _uuid.uuid4


def _ordered_uuid4():
    with _uuid_lock:
        n = next(_uuid_ctr)
    return _uuid.UUID(int=(n << 80) | (_uuid_rand().int & ((1 << 76) - 1)), version=4)


_uuid.uuid4 = _ordered_uuid4


class Hang(Exception):
    pass


class Client:
    def __init__(self, idx, sched):
        self.idx = idx
        self.sched = sched
        self.go = threading.Event()
        self.state = "new"       # new | running | parked | done
        self.last = None          # kind of the last park of the current op
        self.op_index = -1
        self.trace = []
        self.outcomes = []
        self.own = []
        self.butler = None
        self.thread = None

    def park(self, kind):
        """Called in the client's thread at a seam; blocks until the scheduler grants the next step."""
        self.pending = kind
        self.go.clear()           # before the state change: the scheduler grants only after it has seen "parked"
        self.state = "parked"
        with self.sched.cv:
            self.sched.cv.notify_all()
        self.go.wait()
        self.state = "running"
        self.sched.steps.append([self.idx, self.op_index, kind])
        if os.environ.get("VERIF_C20_DEBUG"):
            fr = [f"{os.path.basename(f.filename)}:{f.name}" for f in traceback.extract_stack()
                  if "daf/butler" in f.filename and "contextlib" not in f.filename]
            self.sched.debug.append([self.idx, self.op_index, kind, fr[-6:]])


def _client():
    return getattr(_tls, "client", None)


def patch_process():
    global _patched
    if _patched:
        return
    _patched = True
    from contextlib import contextmanager

    import lsst.resources.file as rf
    from lsst.daf.butler.registry.interfaces import Database

    orig_tx = Database._transaction

    @contextmanager
    def p_transaction(self, **kw):
        c = _client()
        outer = c is not None and not self.isInTransaction()
        passive = getattr(c, "passive", False)
        if outer and not passive:
            c.last = "txn"
            c.park("txn")
        with orig_tx(self, **kw) as r:
            if outer and passive:
                # unscheduled run: stamp the block once it HOLDS the write lock (BEGIN IMMEDIATE has returned), so the
                # recorded order is the order in which the blocks actually executed, not the order of arrival at the seam
                c.last = "txn"
                c.park("txn")
            yield r
    Database._transaction = p_transaction

    orig_q = Database.query

    @contextmanager
    def p_query(self, sql, *a, **k):
        c = _client()
        outer = c is not None and not self.isInTransaction()
        passive = getattr(c, "passive", False)
        if outer and not passive:
            if c.last != "read":
                c.last = "read"
                c.park("read")
        with orig_q(self, sql, *a, **k) as r:
            if outer and passive and c.last != "read":     # stamped once the statement has executed (it held the lock)
                c.last = "read"
                c.park("read")
            yield r
    Database.query = p_query

    def wrap_file(name):
        orig = getattr(rf.FileResourcePath, name)

        def w(self, *a, **k):
            c = _client()
            if c is not None and c.butler is not None and not c.butler._registry._db.isInTransaction():
                c.last = "file"
                c.park("file:" + name)
            return orig(self, *a, **k)
        setattr(rf.FileResourcePath, name, w)
    for n in ("write", "remove", "transfer_from"):
        wrap_file(n)


def err_name(e: BaseException) -> str:
    import sqlalchemy.exc
    if isinstance(e, FileNotFoundError):
        return "FileMissing"
    if isinstance(e, sqlalchemy.exc.IntegrityError):
        return "SqlIntegrity"
    if isinstance(e, sqlalchemy.exc.OperationalError):
        return "SqlOperational"
    return fixture.err_class(e)


# ------------------------------------------------------------------------------------------------------------
# the op interpreter (shared by set-up, scheduled clients and serial reference runs)
# ------------------------------------------------------------------------------------------------------------

def do_op(butler, op, slots, own):
    from lsst.daf.butler import CollectionType, DatasetType
    reg = butler.registry
    k = op[0]

    def refs_of(specs):
        out = []
        for s in specs:
            if s == "own":
                out.extend(own)
            else:
                r = slots.get(f"{s[0]}/{s[1]}")
                if r is None:
                    raise KeyError("no such set-up dataset")
                out.append(r)
        return out

    if k == "regrun":
        return bool(reg.registerRun(op[1]))
    if k == "regcoll":
        return bool(reg.registerCollection(op[1], CollectionType[op[2]]))
    if k == "rmcoll":
        reg.removeCollection(op[1])
        return None
    if k == "put":
        ref = butler.put({"v": op[3]}, "dt", instrument="Cam", detector=op[2], run=op[1])
        own.append(ref)
        return None
    if k == "assoc":
        reg.associate(op[1], refs_of(op[2]))
        return None
    if k == "prune":
        butler.pruneDatasets(refs_of(op[1]), purge=True, unstore=True, disassociate=True)
        return None
    if k == "removerun":
        butler.removeRuns([op[1]])
        return None
    if k == "emptytrash":
        butler._datastore.emptyTrash()
        return None
    if k == "setchain":
        butler.collections.redefine_chain(op[1], list(op[2]))
        return None
    if k == "prepend":
        butler.collections.prepend_chain(op[1], list(op[2]))
        return None
    if k == "extend":
        butler.collections.extend_chain(op[1], list(op[2]))
        return None
    if k == "unchain":
        butler.collections.remove_from_chain(op[1], list(op[2]))
        return None
    if k == "regdt":
        sc = "StructuredDataDict" if op[2] == 0 else "StructuredDataList"
        dt = DatasetType(op[1], dimensions=["instrument", "detector"], storageClass=sc, universe=butler.dimensions)
        return bool(reg.registerDatasetType(dt))
    if k == "regdtg":
        # dataset type over a dimension group that may be NEW to the repository (first use allocates a dimension-group key)
        sc = "StructuredDataDict" if op[3] == 0 else "StructuredDataList"
        dt = DatasetType(op[1], dimensions=list(DGROUPS[op[2]]), storageClass=sc, universe=butler.dimensions)
        return bool(reg.registerDatasetType(dt))
    raise ValueError(f"unknown op {op!r}")


def run_op(butler, op, slots, own):
    try:
        return ["ok", do_op(butler, op, slots, own)]
    except Exception as e:  # noqa: BLE001
        return ["err", err_name(e)]


# ------------------------------------------------------------------------------------------------------------
# repositories
# ------------------------------------------------------------------------------------------------------------

_template = None


def template():
    global _template
    if _template is None:
        root, b = fixture.make_repo(fixture.new_root("c20t"))
        fixture.add_instrument(b, name="Cam", detectors=(0, 1, 2, 3), filters=())
        fixture.add_dataset_type(b, "dt")
        del b
        _template = root
    return _template


def fresh_repo():
    root = fixture.new_root("c20")
    os.rmdir(root)
    shutil.copytree(template(), root)
    return root


def setup_repo(setup_ops):
    """Copy the template, run the set-up program with its own Butler; returns (root, slots {"run/det": ref})."""
    root = fresh_repo()
    b = fixture.open_repo(root)
    slots, own = {}, []
    for op in setup_ops:
        n = len(own)
        r = run_op(b, op, slots, own)
        if r[0] != "ok":
            raise RuntimeError(f"set-up op {op} failed: {r}")
        if op[0] == "put" and len(own) > n:
            slots[f"{op[1]}/{op[2]}"] = own[-1]
    del b
    return root, slots


def open_client(root):
    """A client Butler with its per-client caches warmed the same way in every run (the dataset-type cache and the
    dimension-group key cache decide whether a later call needs an extra read / block; warm, the step structure of a
    call does not depend on what the client did before)."""
    b = fixture.open_repo(root)
    list(b.registry.queryDatasetTypes(...))
    b._registry._managers.dimensions.save_dimension_group(b.dimensions.conform(["instrument", "detector"]))
    return b


def final_state(root):
    """What a FRESH Butler sees; when it cannot even load the repository's definitions that is the observation."""
    try:
        return _final_state(root)
    except Exception as e:  # noqa: BLE001
        return {"load_failed": f"{type(e).__name__}: {str(e)[:200]}", "colls": [], "chains": {}, "data": {}, "tags": {}, "dtypes": [],
                "files": [], "trash": -1, "nrec": -1, "nloc": -1, "orphan_rec": -1, "cycle": False}


def _final_state(root):
    """What a FRESH Butler sees, canonical (no UUIDs, no paths outside the root, sorted)."""
    b = fixture.open_repo(root, writeable=False)
    reg = b.registry
    from lsst.daf.butler import CollectionType
    colls = []
    chains = {}
    names = sorted(reg.queryCollections(flattenChains=False, includeChains=True)) if False else None
    con = sqlite3.connect(f"file:{root}/gen3.sqlite3?mode=ro", uri=True)
    try:
        rows = con.execute("select name, type from collection order by name").fetchall()
        trash = con.execute("select count(*) from dataset_location_trash").fetchone()[0]
        nrec = con.execute("select count(*) from file_datastore_records").fetchone()[0]
        nloc = con.execute("select count(*) from dataset_location").fetchone()[0]
        orphan_rec = con.execute(
            "select count(*) from file_datastore_records r where not exists (select 1 from dataset_location l where l.dataset_id = r.dataset_id)"
            " and not exists (select 1 from dataset_location_trash t where t.dataset_id = r.dataset_id)").fetchone()[0]
    finally:
        con.close()
    tname = {v: k for k, v in CTYPES.items()}
    cyc = False
    for name, t in rows:
        colls.append([name, tname.get(t, str(t))])
        if t == 3:
            chains[name] = list(reg.getCollectionChain(name))
    # cycle detection in python (a flattening query on a cyclic chain never returns)
    def reach(n, seen):
        for c in chains.get(n, []):
            if c in seen:
                return True
            if reach(c, seen | {c}):
                return True
        return False
    for n in chains:
        if reach(n, {n}):
            cyc = True
    data = {}
    tags = {}
    dtypes = sorted([dt.name, dt.storageClass_name] for dt in reg.queryDatasetTypes(...))
    for name, t in rows:
        if t in (1, 2):
            try:
                refs = list(reg.queryDatasets("dt", collections=[name]))
            except Exception as e:  # noqa: BLE001
                data[name] = "query-failed:" + err_name(e)
                continue
            ent = []
            for r in refs:
                det = r.dataId["detector"]
                if t == 1:
                    try:
                        v = b.get(r)
                        v = v.get("v") if isinstance(v, dict) else repr(v)
                    except Exception as e:  # noqa: BLE001
                        v = "unreadable:" + err_name(e)
                    ent.append([det, v])
                else:
                    ent.append([r.run, det])
            (data if t == 1 else tags)[name] = sorted(ent, key=lambda x: str(x))
    files = sorted(p for p in fixture.listing(root) if not p.startswith("gen3.sqlite3"))
    return {"colls": colls, "chains": chains, "data": data, "tags": tags, "dtypes": dtypes, "files": files,
            "trash": trash, "nrec": nrec, "nloc": nloc, "orphan_rec": orphan_rec, "cycle": cyc}


# ------------------------------------------------------------------------------------------------------------
# scheduled run
# ------------------------------------------------------------------------------------------------------------

class Sched:
    def __init__(self):
        self.cv = threading.Condition()
        self.steps = []
        self.debug = []


def _client_main(c: Client, prog, slots):
    _tls.client = c
    try:
        c.park("start")
        for i, op in enumerate(prog):
            c.op_index = i
            c.last = None
            c.outcomes.append(run_op(c.butler, op, slots, c.own))
        c.op_index = len(prog)
    except BaseException:  # noqa: BLE001
        c.outcomes.append(["crash", traceback.format_exc()[-1500:]])
    finally:
        c.state = "done"
        with c.sched.cv:
            c.sched.cv.notify_all()


def run_scheduled(setup_ops, programs, schedule, keep=False):
    """Returns {"outcomes": [[..] per client], "final": state, "steps": [[client, op index, kind]..], "hang": bool}."""
    patch_process()
    root, slots = setup_repo(setup_ops)
    sched = Sched()
    clients = []
    try:
        for i, prog in enumerate(programs):
            c = Client(i, sched)
            c.butler = open_client(root)
            clients.append(c)
        for c, prog in zip(clients, programs):
            c.thread = threading.Thread(target=_client_main, args=(c, prog, slots), daemon=True)
            c.state = "running"
            c.thread.start()
            _wait(sched, c)            # runs to the "start" park
            c.state = "running"
            c.go.set()
            _wait(sched, c)            # python-only prefix of the first op: up to its first real seam
        sched.steps.clear()
        sched.debug.clear()
        pos = 0
        picks = []
        while True:
            live = [c for c in clients if c.state != "done"]
            if not live:
                break
            k = schedule[pos] if pos < len(schedule) else 0
            pos += 1
            c = live[k % len(live)]
            picks.append(c.idx)
            c.state = "running"
            c.go.set()
            _wait(sched, c)
        res = {"outcomes": [c.outcomes for c in clients], "steps": sched.steps, "picks": picks, "hang": False}
        if sched.debug:
            res["debug"] = sched.debug
        for c in clients:
            c.butler = None
        res["final"] = final_state(root)
        return res
    except Hang:
        return {"outcomes": [c.outcomes for c in clients], "steps": sched.steps, "hang": True, "final": None}
    finally:
        if not keep:
            fixture.cleanup(root)


def _wait(sched, c):
    t0 = time.time()
    with sched.cv:
        while c.state == "running":
            sched.cv.wait(0.5)
            if time.time() - t0 > STEP_TIMEOUT:
                raise Hang()


def run_serial(setup_ops, programs, order):
    """Serial reference: `order` is a list of client indices (a merge of the programs); each API call runs to completion
    before the next starts; one Butler per client, opened after the set-up, exactly as in the scheduled run."""
    root, slots = setup_repo(setup_ops)
    try:
        butlers = [open_client(root) for _ in programs]
        owns = [[] for _ in programs]
        pcs = [0] * len(programs)
        outs = [[] for _ in programs]
        for i in order:
            op = programs[i][pcs[i]]
            pcs[i] += 1
            outs[i].append(run_op(butlers[i], op, slots, owns[i]))
        butlers = None
        return {"outcomes": outs, "final": final_state(root)}
    finally:
        fixture.cleanup(root)


class Observer:
    """Stands in for `Client` in an unscheduled run: the seams only RECORD (client, call index, kind), appended to one
    list under one lock = a global monotonic stamp.  A block / a read is stamped while it holds SQLite's write lock, so the
    recorded order of blocks is their real execution order; a file operation is stamped just before it starts."""

    def __init__(self, idx, steps, lock, butler):
        self.idx, self.steps, self.lock, self.butler = idx, steps, lock, butler
        self.passive = True
        self.op_index = -1
        self.last = None

    def park(self, kind):
        with self.lock:
            self.steps.append([self.idx, self.op_index, kind])


def run_free(setup_ops, programs):
    """Unscheduled threads: real SQLite locking decides the interleaving (oracle only); seams are recorded, not held."""
    patch_process()
    root, slots = setup_repo(setup_ops)
    try:
        butlers = [open_client(root) for _ in programs]
        outs = [[] for _ in programs]
        steps, lock = [], threading.Lock()
        barrier = threading.Barrier(len(programs))

        def main(i):
            own = []
            ob = Observer(i, steps, lock, butlers[i])
            _tls.client = ob
            barrier.wait()
            for k, op in enumerate(programs[i]):
                ob.op_index, ob.last = k, None
                outs[i].append(run_op(butlers[i], op, slots, own))
        ths = [threading.Thread(target=main, args=(i,), daemon=True) for i in range(len(programs))]
        for t in ths:
            t.start()
        t0 = time.time()
        for t in ths:
            t.join(max(0.1, STEP_TIMEOUT * 2 - (time.time() - t0)))
            if t.is_alive():
                return {"outcomes": outs, "final": None, "hang": True, "steps": list(steps)}
        butlers = None
        return {"outcomes": outs, "final": final_state(root), "hang": False, "steps": list(steps)}
    finally:
        fixture.cleanup(root)


# ------------------------------------------------------------------------------------------------------------
# worker entry points (JSON in / JSON out)
# ------------------------------------------------------------------------------------------------------------

def batch(payload):
    """payload = {"jobs": [{"kind": "sched"|"serial"|"free", "setup": .., "programs": .., "schedule"|"order": ..}]}.
    A hang aborts the batch (stuck daemon threads cannot be trusted); the jobs done so far are returned."""
    out = []
    try:
        for job in payload["jobs"]:
            t0 = time.time()
            try:
                if job["kind"] == "sched":
                    r = run_scheduled(job["setup"], job["programs"], job.get("schedule", []))
                elif job["kind"] == "serial":
                    r = run_serial(job["setup"], job["programs"], job["order"])
                else:
                    r = run_free(job["setup"], job["programs"])
            except Exception:  # noqa: BLE001
                r = {"crash": traceback.format_exc()[-2500:]}
            r["wall"] = round(time.time() - t0, 3)
            out.append(r)
            if r.get("hang"):
                break
    finally:
        if _template is not None:
            fixture.cleanup(_template)
    return {"results": out}
