"""C19 implementation driver: build a source and a target repository (REAL SQLite registry + POSIX file datastore)
from state descriptions, run export/import_ and transfer_from actions and record, after every action, the outcome
class and the whole observable state of the target (and whether the source stayed as it was).

Numeric ids <-> real names (kept here, never sent to the model):
  collection c  -> "c<c>"   (0..9, so that string order == numeric order, which the export sort relies on)
  dataset type t -> "dt<t>" (dimensions instrument, detector); definition code 0 = StructuredDataDict,
                    1 = StructuredDataDict + isCalibration, 2 = StructuredDataList
  data id d     -> instrument "I<d // NDET>", detector d % NDET
  dimension record key k: k < 100 -> detector record of data id k (payload in `purpose`),
                          k >= 100 -> instrument record I<k-100> (payload in `class_name`)
  dataset id n  -> uuid5(NS, n)      content v -> {"v": v} (dict storage class) or [v] (list storage class)
  validity range (b, e), small ints -> nanoseconds BASE + b * STEP

State description (source and pre-populated target use the same format; built in this order):
  {"dims": [[k, payload]], "types": [[t, defcode]], "colls": [[c, kind, [children]]] (kind 1 RUN 2 TAGGED 3 CHAINED
   4 CALIBRATION), "dsets": [[n, t, d, run, content]], "tags": [[c, n]], "calibs": [[c, n, b, e]]}

Actions:
  ["ExIm", [n...], [c...], mode]         export(saveDatasets(refs n), saveCollection(c)...) into a fresh directory
                                          (files copied out), then target.import_(directory, transfer=mode)
  ["Xfer", [n...], mode, regtypes, dims]  target.transfer_from(source, refs, transfer=mode,
                                          register_dataset_types=regtypes, transfer_dimensions=dims)
"""
from __future__ import annotations

import os
import shutil
import uuid

from harness.impl import fixture

NDET = 2
NS = uuid.UUID("5a0c6b1e-0000-4000-8000-00000000c019")
BASE = 1_000_000_000_000_000_000
STEP = 1_000_000_000_000
KIND = {1: "RUN", 2: "TAGGED", 3: "CHAINED", 4: "CALIBRATION"}
ERR_NOTFOUND, ERR_OTHER, ERR_SHAPE, ERR_UNSTORED = 999001, 999002, 999003, 999004


def cname(n):
    return f"c{n}"


def tname(n):
    return f"dt{n}"


def uid(n):
    """Deterministic ids: version-4 shaped (what Butler.put generates); n >= 200 are version 5 (the form for which a
    direct-mode ingest may replace an existing datastore record)."""
    if n >= 200:
        return uuid.uuid5(NS, str(n))
    return uuid.UUID(int=(0xC19 << 100) + n + 1, version=4)


def did(d):
    return {"instrument": f"I{d // NDET}", "detector": d % NDET}


def tspan(b, e):
    from lsst.daf.butler import Timespan
    return Timespan(None, None, _nsec=(BASE + b * STEP, BASE + e * STEP))


class Repo:
    def __init__(self, tag):
        self.root, self.butler = fixture.make_repo(fixture.new_root(tag))
        self.reg = self.butler.registry
        self._dt = {}

    def dtype(self, t, code):
        from lsst.daf.butler import DatasetType
        return DatasetType(tname(t), dimensions=["instrument", "detector"],
                           storageClass="StructuredDataList" if code == 2 else "StructuredDataDict",
                           universe=self.butler.dimensions, isCalibration=(code == 1))

    def ref(self, n, t, d, run, code=None):
        from lsst.daf.butler import DataCoordinate, DatasetRef
        dt = self.reg.getDatasetType(tname(t)) if code is None else self.dtype(t, code)
        dc = DataCoordinate.standardize(did(d), dimensions=dt.dimensions)
        return DatasetRef(dt, dc, run=cname(run), id=uid(n))

    # -- construction -----------------------------------------------------------------------
    def build(self, st):
        from lsst.daf.butler import CollectionType
        reg = self.reg
        insts = sorted(k for k, _ in st["dims"] if k >= 100)
        for k, p in sorted(st["dims"], key=lambda kp: (kp[0] < 100, kp[0])):
            if k >= 100:
                reg.insertDimensionData("instrument", {"name": f"I{k - 100}", "detector_max": 100, "visit_max": 10000,
                                                       "exposure_max": 10000, "class_name": f"p{p}", "visit_system": 0})
            else:
                reg.insertDimensionData("detector", {"instrument": f"I{k // NDET}", "id": k % NDET, "full_name": f"det{k % NDET}",
                                                     "name_in_raft": f"d{k % NDET}", "raft": "R", "purpose": f"p{p}"})
        del insts
        for t, code in st["types"]:
            reg.registerDatasetType(self.dtype(t, code))
        for c, kind, children in st["colls"]:
            reg.registerCollection(cname(c), CollectionType[KIND[kind]])
            if kind == 3:
                reg.setCollectionChain(cname(c), [cname(x) for x in children])
        codes = dict((t, code) for t, code in st["types"])
        for n, t, d, run, v in st["dsets"]:
            obj = [v] if codes[t] == 2 else {"v": v}
            r = self.ref(n, t, d, run)
            if v < 0:      # registry entry only, nothing stored (an artifact that was never written / was unstored)
                reg._importDatasets([r])
            else:
                self.butler.put(obj, r.expanded(reg.expandDataId(r.dataId)))
        defs = {n: (t, d, run) for n, t, d, run, _ in st["dsets"]}
        for c, n in st["tags"]:
            reg.associate(cname(c), [self.ref(n, *defs[n])])
        for c, n, b, e in st["calibs"]:
            reg.certify(cname(c), [self.ref(n, *defs[n])], tspan(b, e))

    # -- observation ------------------------------------------------------------------------
    def observe(self):
        from lsst.daf.butler import CollectionType, DatasetExistence
        reg, butler = self.reg, self.butler
        butler.registry.refresh()
        obs = {"probe_errors": {}}

        def perr(kind, e):
            key = f"{kind}:{fixture.err_class(e)}"
            obs["probe_errors"][key] = obs["probe_errors"].get(key, 0) + 1

        dims = []
        for r in reg.queryDimensionRecords("instrument"):
            dims.append([100 + int(r.name[1:]), int(r.class_name[1:]) if r.class_name and r.class_name[1:].isdigit() else -1])
        for r in reg.queryDimensionRecords("detector"):
            dims.append([int(r.instrument[1:]) * NDET + int(r.id), int(r.purpose[1:]) if r.purpose and r.purpose[1:].isdigit() else -1])
        obs["dims"] = sorted(dims)
        types, tnames = [], []
        for dt in reg.queryDatasetTypes():
            if not dt.name.startswith("dt"):
                continue
            code = 2 if dt.storageClass_name == "StructuredDataList" else (1 if dt.isCalibration() else 0)
            types.append([int(dt.name[2:]), code])
            tnames.append(dt)
        obs["types"] = sorted(types)
        colls, chains = [], []
        kinds = {}
        for name in reg.queryCollections():
            if not (name.startswith("c") and name[1:].isdigit()):
                continue
            k = reg.getCollectionType(name)
            kinds[name] = k
            colls.append([int(name[1:]), {v: kk for kk, v in KIND.items()}[k.name]])
            if k is CollectionType.CHAINED:
                for pos, ch in enumerate(reg.getCollectionChain(name)):
                    chains.append([int(name[1:]), pos, int(ch[1:]) if ch[1:].isdigit() else -1])
        obs["colls"], obs["chains"] = sorted(colls), sorted(chains)
        dsets, content, tags, calibs = [], [], [], []
        n_of = getattr(self, "n_of", None)
        if n_of is None:
            n_of = self.n_of = {uid(n): n for n in range(0, 300)}

        def dnum(ref):
            return int(str(ref.dataId["instrument"])[1:]) * NDET + int(ref.dataId["detector"])

        for name, k in kinds.items():
            c = int(name[1:])
            for dt in tnames:
                t = int(dt.name[2:])
                if k is CollectionType.RUN or k is CollectionType.TAGGED:
                    try:
                        refs = list(reg.queryDatasets(dt.name, collections=[name], findFirst=False))
                    except Exception as e:  # noqa: BLE001
                        perr("queryDatasets", e)
                        refs = []
                    for r in refs:
                        n = n_of.get(r.id, -1)
                        if k is CollectionType.RUN:
                            dsets.append([n, t, dnum(r), int(r.run[1:])])
                            try:
                                obj = butler.get(r)
                                if isinstance(obj, dict) and set(obj) == {"v"}:
                                    v = int(obj["v"])
                                elif isinstance(obj, list) and len(obj) == 1:
                                    v = int(obj[0])
                                else:
                                    v = ERR_SHAPE
                            except FileNotFoundError:
                                # no datastore record at all (never stored) vs. a record whose artifact is gone
                                try:
                                    known = (butler.exists(r, full_check=False) & DatasetExistence.DATASTORE) == DatasetExistence.DATASTORE
                                except Exception as e:  # noqa: BLE001
                                    perr("exists", e)
                                    known = True
                                v = ERR_NOTFOUND if known else ERR_UNSTORED
                            except Exception as e:  # noqa: BLE001
                                perr("get", e)
                                v = ERR_OTHER
                            content.append([n, v])
                        else:
                            tags.append([c, n])
                elif k is CollectionType.CALIBRATION:
                    try:
                        for a in reg.queryDatasetAssociations(dt.name, collections=[name], collectionTypes={CollectionType.CALIBRATION}):
                            b, e = a.timespan.nsec
                            calibs.append([c, n_of.get(a.ref.id, -1), (b - BASE) // STEP if (b - BASE) % STEP == 0 else -1,
                                           (e - BASE) // STEP if (e - BASE) % STEP == 0 else -1])
                    except Exception as e:  # noqa: BLE001
                        perr("queryDatasetAssociations", e)
        obs["dsets"], obs["content"], obs["tags"], obs["calibs"] = sorted(dsets), sorted(content), sorted(tags), sorted(calibs)
        return obs

    def close(self):
        try:
            self.butler.close()
        except Exception:  # noqa: BLE001
            pass
        fixture.cleanup(self.root)


def err_class(e):
    """fixture.err_class, except that a plain ValueError / TypeError / RuntimeError keeps its own name (fixture maps every
    ValueError to the collection-cycle class)."""
    if type(e) in (ValueError, TypeError, RuntimeError, KeyError, AssertionError, FileNotFoundError, FileExistsError):
        return type(e).__name__
    return fixture.err_class(e)


def _outcome(fn):
    try:
        fn()
        return "Ok", ""
    except Exception as e:  # noqa: BLE001
        return "Err:" + err_class(e), f"{type(e).__name__}: {str(e)[:300]}"


def run_case(case):
    """case {"src": state, "tgt": state, "actions": [...]} -> {"build": "ok"|text, "src0": obs, "tgt0": obs,
    "steps": [{"out": str, "msg": str, "tgt": obs, "src_same": bool}]}"""
    src = Repo("c19s")
    tgt = Repo("c19t")
    dirs = []
    res = {}
    try:
        try:
            src.build(case["src"])
            tgt.build(case["tgt"])
            res["build"] = "ok"
        except Exception as e:  # noqa: BLE001
            res["build"] = f"{type(e).__name__}: {str(e)[:400]}"
            return res
        src0 = src.observe()
        res["src0"], res["tgt0"] = src0, tgt.observe()
        sdefs = {n: (t, d, run) for n, t, d, run, _ in case["src"]["dsets"]}
        steps = []
        for act in case["actions"]:
            if act[0] == "ExIm":
                _, ids, colls, mode = act
                d = fixture.new_root("c19x")
                dirs.append(d)

                def go():
                    refs = [src.ref(n, *sdefs[n]) for n in ids]
                    with src.butler.export(directory=d, filename="export.yaml", transfer="copy") as ex:
                        ex.saveDatasets(refs)
                        for c in colls:
                            ex.saveCollection(cname(c))
                    tgt.butler.import_(directory=d, filename="export.yaml", transfer=mode)
            elif act[0] == "Xfer":
                _, ids, mode, regtypes, xdims = act

                def go():
                    refs = [src.ref(n, *sdefs[n]) for n in ids]
                    tgt.butler.transfer_from(src.butler, refs, transfer=mode, register_dataset_types=bool(regtypes),
                                             transfer_dimensions=bool(xdims))
            else:
                raise ValueError(act)
            out, msg = _outcome(go)
            so = src.observe()
            steps.append({"out": out, "msg": msg, "tgt": tgt.observe(), "src_same": _strip(so) == _strip(src0)})
        res["steps"] = steps
        return res
    finally:
        src.close()
        tgt.close()
        for d in dirs:
            shutil.rmtree(d, ignore_errors=True)


def _strip(o):
    return {k: v for k, v in o.items() if k != "probe_errors"}


def run_cases(payload):
    return [run_case(c) for c in payload["cases"]]
