"""C19 implementation driver: build a source and a target repository (REAL SQLite registry + POSIX file datastore)
from state descriptions, run export/import_ and transfer_from actions and record, after every action, the outcome
class and the whole observable state of the target (and whether the source stayed as it was).

Numeric ids <-> real names (kept here, never sent to the model):
  collection c  -> "c<c>"   (0..9, so that string order == numeric order, which the export sort relies on)
  dataset type t -> "dt<t>" (dimensions instrument, detector); definition code 0 = StructuredDataDict,
                    1 = StructuredDataDict + isCalibration, 2 = StructuredDataList
  data id d     -> instrument "I<d // NDET>", detector d % NDET
  dimension record key k: k < 100 -> detector record of data id k (payload in `purpose`),
                          k >= 100 -> instrument record I<k-100> (payload in `class_name`)
  dataset id n  -> uuid5(NS, n)      content v -> {"v": v} (dict storage class) or [v] (list storage class)
  validity range (b, e), small ints -> nanoseconds BASE + b * STEP

State description (source and pre-populated target use the same format; built in this order):
  {"dims": [[k, payload]], "types": [[t, defcode]], "colls": [[c, kind, [children]]] (kind 1 RUN 2 TAGGED 3 CHAINED
   4 CALIBRATION), "dsets": [[n, t, d, run, content]], "tags": [[c, n]], "calibs": [[c, n, b, e]]}

Actions:
  ["ExIm", [n...], [c...], mode(, [n...])] export(saveDatasets(refs n), saveCollection(c)...) into a fresh directory
                                          (files copied out), then target.import_(directory, transfer=mode); the optional
                                          5th element is a permutation of the ids: one saveDatasets call per dataset in
                                          that order (= the order in which the export context meets the dataset types)
  ["Xfer", [n...], mode, regtypes, dims]  target.transfer_from(source, refs, transfer=mode,
                                          register_dataset_types=regtypes, transfer_dimensions=dims)
"""
from __future__ import annotations

import os
import shutil
import uuid

from harness.impl import fixture

NDET = 2
NS = uuid.UUID("5a0c6b1e-0000-4000-8000-00000000c019")
BASE = 1_000_000_000_000_000_000
STEP = 1_000_000_000_000
KIND = {1: "RUN", 2: "TAGGED", 3: "CHAINED", 4: "CALIBRATION"}
ERR_NOTFOUND, ERR_OTHER, ERR_SHAPE, ERR_UNSTORED = 999001, 999002, 999003, 999004


def cname(n):
    return f"c{n}"


def tname(n):
    return f"dt{n}"


def uid(n):
    """Deterministic ids: version-4 shaped (what Butler.put generates); n >= 200 are version 5 (the form for which a
    direct-mode ingest may replace an existing datastore record)."""
    if n >= 200:
        return uuid.uuid5(NS, str(n))
    return uuid.UUID(int=(0xC19 << 100) + n + 1, version=4)


def did(d):
    return {"instrument": f"I{d // NDET}", "detector": d % NDET}


UNBOUNDED = 90     # validity-range end 90 = unbounded (None); every bounded value is smaller, so the model's < order agrees


def tspan(b, e):
    from lsst.daf.butler import Timespan
    from lsst.daf.butler.time_utils import TimeConverter
    return Timespan(None, None, _nsec=(BASE + b * STEP, TimeConverter().max_nsec if e == UNBOUNDED else BASE + e * STEP))


class Repo:
    def __init__(self, tag):
        self.root, self.butler = fixture.make_repo(fixture.new_root(tag))
        self.reg = self.butler.registry
        self._dt = {}

    def dtype(self, t, code):
        from lsst.daf.butler import DatasetType
        return DatasetType(tname(t), dimensions=["instrument", "detector"],
                           storageClass="StructuredDataList" if code == 2 else "StructuredDataDict",
                           universe=self.butler.dimensions, isCalibration=(code == 1))

    def ref(self, n, t, d, run, code=None):
        from lsst.daf.butler import DataCoordinate, DatasetRef
        dt = self.reg.getDatasetType(tname(t)) if code is None else self.dtype(t, code)
        dc = DataCoordinate.standardize(did(d), dimensions=dt.dimensions)
        return DatasetRef(dt, dc, run=cname(run), id=uid(n))

    # -- construction -----------------------------------------------------------------------
    def build(self, st):
        from lsst.daf.butler import CollectionType
        reg = self.reg
        insts = sorted(k for k, _ in st["dims"] if k >= 100)
        for k, p in sorted(st["dims"], key=lambda kp: (kp[0] < 100, kp[0])):
            if k >= 100:
                reg.insertDimensionData("instrument", {"name": f"I{k - 100}", "detector_max": 100, "visit_max": 10000,
                                                       "exposure_max": 10000, "class_name": f"p{p}", "visit_system": 0})
            else:
                reg.insertDimensionData("detector", {"instrument": f"I{k // NDET}", "id": k % NDET, "full_name": f"det{k % NDET}",
                                                     "name_in_raft": f"d{k % NDET}", "raft": "R", "purpose": f"p{p}"})
        del insts
        for t, code in st["types"]:
            reg.registerDatasetType(self.dtype(t, code))
        for c, kind, children in st["colls"]:
            reg.registerCollection(cname(c), CollectionType[KIND[kind]])
            if kind == 3:
                reg.setCollectionChain(cname(c), [cname(x) for x in children])
        codes = dict((t, code) for t, code in st["types"])
        for n, t, d, run, v in st["dsets"]:
            obj = [v] if codes[t] == 2 else {"v": v}
            r = self.ref(n, t, d, run)
            if v < 0:      # registry entry only, nothing stored (an artifact that was never written / was unstored)
                reg._importDatasets([r])
            else:
                self.butler.put(obj, r.expanded(reg.expandDataId(r.dataId)))
        defs = {n: (t, d, run) for n, t, d, run, _ in st["dsets"]}
        for c, n in st["tags"]:
            reg.associate(cname(c), [self.ref(n, *defs[n])])
        for c, n, b, e in st["calibs"]:
            reg.certify(cname(c), [self.ref(n, *defs[n])], tspan(b, e))

    # -- observation ------------------------------------------------------------------------
    def observe(self):
        from lsst.daf.butler import CollectionType, DatasetExistence
        reg, butler = self.reg, self.butler
        butler.registry.refresh()
        obs = {"probe_errors": {}}

        def perr(kind, e):
            key = f"{kind}:{fixture.err_class(e)}"
            obs["probe_errors"][key] = obs["probe_errors"].get(key, 0) + 1

        dims = []
        for r in reg.queryDimensionRecords("instrument"):
            dims.append([100 + int(r.name[1:]), int(r.class_name[1:]) if r.class_name and r.class_name[1:].isdigit() else -1])
        for r in reg.queryDimensionRecords("detector"):
            dims.append([int(r.instrument[1:]) * NDET + int(r.id), int(r.purpose[1:]) if r.purpose and r.purpose[1:].isdigit() else -1])
        obs["dims"] = sorted(dims)
        types, tnames = [], []
        for dt in reg.queryDatasetTypes():
            if not dt.name.startswith("dt"):
                continue
            code = 2 if dt.storageClass_name == "StructuredDataList" else (1 if dt.isCalibration() else 0)
            types.append([int(dt.name[2:]), code])
            tnames.append(dt)
        obs["types"] = sorted(types)
        colls, chains = [], []
        kinds = {}
        for name in reg.queryCollections():
            if not (name.startswith("c") and name[1:].isdigit()):
                continue
            k = reg.getCollectionType(name)
            kinds[name] = k
            colls.append([int(name[1:]), {v: kk for kk, v in KIND.items()}[k.name]])
            if k is CollectionType.CHAINED:
                for pos, ch in enumerate(reg.getCollectionChain(name)):
                    chains.append([int(name[1:]), pos, int(ch[1:]) if ch[1:].isdigit() else -1])
        obs["colls"], obs["chains"] = sorted(colls), sorted(chains)
        dsets, content, tags, calibs = [], [], [], []
        n_of = getattr(self, "n_of", None)
        if n_of is None:
            n_of = self.n_of = {uid(n): n for n in range(0, 300)}

        def dnum(ref):
            return int(str(ref.dataId["instrument"])[1:]) * NDET + int(ref.dataId["detector"])

        for name, k in kinds.items():
            c = int(name[1:])
            for dt in tnames:
                t = int(dt.name[2:])
                if k is CollectionType.RUN or k is CollectionType.TAGGED:
                    try:
                        refs = list(reg.queryDatasets(dt.name, collections=[name], findFirst=False))
                    except Exception as e:  # noqa: BLE001
                        perr("queryDatasets", e)
                        refs = []
                    for r in refs:
                        n = n_of.get(r.id, -1)
                        if k is CollectionType.RUN:
                            dsets.append([n, t, dnum(r), int(r.run[1:])])
                            try:
                                obj = butler.get(r)
                                if isinstance(obj, dict) and set(obj) == {"v"}:
                                    v = int(obj["v"])
                                elif isinstance(obj, list) and len(obj) == 1:
                                    v = int(obj[0])
                                else:
                                    v = ERR_SHAPE
                            except FileNotFoundError:
                                # no datastore record at all (never stored) vs. a record whose artifact is gone
                                try:
                                    known = (butler.exists(r, full_check=False) & DatasetExistence.DATASTORE) == DatasetExistence.DATASTORE
                                except Exception as e:  # noqa: BLE001
                                    perr("exists", e)
                                    known = True
                                v = ERR_NOTFOUND if known else ERR_UNSTORED
                            except Exception as e:  # noqa: BLE001
                                perr("get", e)
                                v = ERR_OTHER
                            content.append([n, v])
                        else:
                            tags.append([c, n])
                elif k is CollectionType.CALIBRATION:
                    try:
                        for a in reg.queryDatasetAssociations(dt.name, collections=[name], collectionTypes={CollectionType.CALIBRATION}):
                            b, e = a.timespan.nsec
                            calibs.append([c, n_of.get(a.ref.id, -1), (b - BASE) // STEP if (b - BASE) % STEP == 0 else -1,
                                           UNBOUNDED if a.timespan.end is None else
                                           ((e - BASE) // STEP if (e - BASE) % STEP == 0 else -1)])
                    except Exception as e:  # noqa: BLE001
                        perr("queryDatasetAssociations", e)
        obs["dsets"], obs["content"], obs["tags"], obs["calibs"] = sorted(dsets), sorted(content), sorted(tags), sorted(calibs)
        return obs

    def close(self):
        try:
            self.butler.close()
        except Exception:  # noqa: BLE001
            pass
        fixture.cleanup(self.root)


def err_class(e):
    """fixture.err_class, except that a plain ValueError / TypeError / RuntimeError keeps its own name (fixture maps every
    ValueError to the collection-cycle class)."""
    if type(e) in (ValueError, TypeError, RuntimeError, KeyError, AssertionError, FileNotFoundError, FileExistsError):
        return type(e).__name__
    return fixture.err_class(e)


def _outcome(fn):
    try:
        fn()
        return "Ok", ""
    except Exception as e:  # noqa: BLE001
        return "Err:" + err_class(e), f"{type(e).__name__}: {str(e)[:300]}"


def run_case(case):
    """case {"src": state, "tgt": state, "actions": [...]} -> {"build": "ok"|text, "src0": obs, "tgt0": obs,
    "steps": [{"out": str, "msg": str, "tgt": obs, "src_same": bool}]}"""
    src = Repo("c19s")
    tgt = Repo("c19t")
    dirs = []
    res = {}
    try:
        try:
            src.build(case["src"])
            tgt.build(case["tgt"])
            res["build"] = "ok"
        except Exception as e:  # noqa: BLE001
            res["build"] = f"{type(e).__name__}: {str(e)[:400]}"
            return res
        src0 = src.observe()
        res["src0"], res["tgt0"] = src0, tgt.observe()
        sdefs = {n: (t, d, run) for n, t, d, run, _ in case["src"]["dsets"]}
        steps = []
        for act in case["actions"]:
            if act[0] == "ExIm":
                _, ids, colls, mode = act[:4]
                order = act[4] if len(act) > 4 else None     # optional: one saveDatasets call per dataset, in this order
                d = fixture.new_root("c19x")
                dirs.append(d)

                def go():
                    refs = [src.ref(n, *sdefs[n]) for n in ids]
                    with src.butler.export(directory=d, filename="export.yaml", transfer="copy") as ex:
                        if order:
                            for n in order:
                                ex.saveDatasets([src.ref(n, *sdefs[n])])
                        else:
                            ex.saveDatasets(refs)
                        for c in colls:
                            ex.saveCollection(cname(c))
                    tgt.butler.import_(directory=d, filename="export.yaml", transfer=mode)
            elif act[0] == "Xfer":
                _, ids, mode, regtypes, xdims = act

                def go():
                    refs = [src.ref(n, *sdefs[n]) for n in ids]
                    tgt.butler.transfer_from(src.butler, refs, transfer=mode, register_dataset_types=bool(regtypes),
                                             transfer_dimensions=bool(xdims))
            else:
                raise ValueError(act)
            out, msg = _outcome(go)
            so = src.observe()
            steps.append({"out": out, "msg": msg, "tgt": tgt.observe(), "src_same": _strip(so) == _strip(src0)})
        res["steps"] = steps
        return res
    finally:
        src.close()
        tgt.close()
        for d in dirs:
            shutil.rmtree(d, ignore_errors=True)


def _strip(o):
    return {k: v for k, v in o.items() if k != "probe_errors"}


def run_cases(payload):
    return [run_case(c) for c in payload["cases"]]


# ======================================================================================================================
# dimension-record closure cases (wave 4b): which rows of which dimension-element tables reach the target.
#   source description: {"dets": [d], "vsys": [s], "exps": [e], "visits": [v], "vdef": [[v, e]], "vsm": [[v, s]],
#                        "vdr": [[v, d]], "dsets": [[n, kind, a, b]]}   kind 0 {visit a, detector b} 1 {visit a}
#                        2 {exposure a} 3 {detector a};   physical_filter of a visit / exposure = id % 2, day_obs 1,
#                        group of exposure e = "g<e>", one instrument "Cam"
#   target description: {"dets": [...], "vsys": [...], "exps": [...], "visits": [...], "vsm": [[v, s]]} (pre-populated rows)
#   op: 0 export + import_, 1 transfer_from(transfer_dimensions=True), 2 transfer_dimension_records_from
#   rows: [element code, key1, key2] -- codes as in coq/Model/TransferDims.v
DIM_ELEMENTS = {1: "instrument", 2: "day_obs", 3: "detector", 4: "group", 5: "physical_filter", 6: "visit_system",
                7: "exposure", 8: "visit", 9: "visit_definition", 10: "visit_detector_region",
                11: "visit_system_membership"}
DIM_TYPES = {0: ("xvd", ["instrument", "visit", "detector"]), 1: ("xv", ["instrument", "visit"]),
             2: ("xe", ["instrument", "exposure"]), 3: ("xd", ["instrument", "detector"])}


def _box(lon, lat, d):
    from lsst.sphgeom import ConvexPolygon, LonLat, UnitVector3d
    pts = [(lon - d, lat - d), (lon + d, lat - d), (lon + d, lat + d), (lon - d, lat + d)]
    return ConvexPolygon([UnitVector3d(LonLat.fromDegrees(a, b)) for a, b in pts])


def _dim_build(repo, st):
    r = repo.reg
    r.insertDimensionData("instrument", {"name": "Cam", "visit_max": 1000, "exposure_max": 1000, "detector_max": 10,
                                         "class_name": "x.Cam"})
    need_f = {x % 2 for x in list(st.get("exps", [])) + list(st.get("visits", []))}
    for f in sorted(need_f):
        r.insertDimensionData("physical_filter", {"instrument": "Cam", "name": f"f{f}", "band": "r"})
    if st.get("exps") or st.get("visits"):
        r.insertDimensionData("day_obs", {"instrument": "Cam", "id": 1})
    for d in st.get("dets", []):
        r.insertDimensionData("detector", {"instrument": "Cam", "id": d, "full_name": f"D{d}"})
    for s in st.get("vsys", []):
        r.insertDimensionData("visit_system", {"instrument": "Cam", "id": s, "name": f"vs{s}"})
    for e in st.get("exps", []):
        r.insertDimensionData("group", {"instrument": "Cam", "name": f"g{e}"})
        r.insertDimensionData("exposure", {"instrument": "Cam", "id": e, "obs_id": f"o{e}", "physical_filter": f"f{e % 2}",
                                           "group": f"g{e}", "day_obs": 1})
    for v in st.get("visits", []):
        r.insertDimensionData("visit", {"instrument": "Cam", "id": v, "name": f"v{v}", "physical_filter": f"f{v % 2}",
                                        "day_obs": 1, "region": _box(v, 0, 1.0)})
    for v, e in st.get("vdef", []):
        r.insertDimensionData("visit_definition", {"instrument": "Cam", "visit": v, "exposure": e})
    for v, s in st.get("vsm", []):
        r.insertDimensionData("visit_system_membership", {"instrument": "Cam", "visit": v, "visit_system": s})
    for v, d in st.get("vdr", []):
        r.insertDimensionData("visit_detector_region", {"instrument": "Cam", "visit": v, "detector": d,
                                                        "region": _box(v + d * 0.3, 0, 0.25)})


def _dim_ref(repo, n, kind, a, b):
    from lsst.daf.butler import DataCoordinate, DatasetRef, DatasetType
    name, dims = DIM_TYPES[kind]
    dt = DatasetType(name, dimensions=dims, storageClass="StructuredDataDict", universe=repo.butler.dimensions)
    did_ = {"instrument": "Cam"}
    if kind == 0:
        did_.update(visit=a, detector=b)
    elif kind == 1:
        did_.update(visit=a)
    elif kind == 2:
        did_.update(exposure=a)
    else:
        did_.update(detector=a)
    return DatasetRef(dt, DataCoordinate.standardize(did_, dimensions=dt.dimensions), run="xr", id=uid(n))


def _dim_observe(repo, ids):
    reg = repo.reg
    reg.refresh()
    rows = []
    for code, el in DIM_ELEMENTS.items():
        for rec in reg.queryDimensionRecords(el):
            if code == 1:
                rows.append([1, 0 if rec.name == "Cam" else 99, 0])
            elif code in (2, 3, 6, 7, 8):
                rows.append([code, int(rec.id), 0])
            elif code in (4, 5):
                rows.append([code, int(rec.name[1:]), 0])
            elif code == 9:
                rows.append([9, int(rec.visit), int(rec.exposure)])
            elif code == 10:
                rows.append([10, int(rec.visit), int(rec.detector)])
            else:
                rows.append([11, int(rec.visit), int(rec.visit_system)])
    have = []
    for n in ids:
        try:
            if reg.getDataset(uid(n)) is not None:
                have.append(n)
        except Exception:  # noqa: BLE001
            pass
    return {"rows": sorted(rows), "dsets": sorted(have)}


def run_dim_case(case):
    from lsst.daf.butler import CollectionType
    src, tgt = Repo("c19ds"), Repo("c19dt")
    d = None
    res = {}
    try:
        try:
            _dim_build(src, case["src"])
            src.reg.registerCollection("xr", CollectionType.RUN)
            for n, k, a, b in case["src"]["dsets"]:
                ref = _dim_ref(src, n, k, a, b)
                src.reg.registerDatasetType(ref.datasetType)
                src.butler.put({"v": n}, ref.expanded(src.reg.expandDataId(ref.dataId)))
            if case.get("tgt"):
                _dim_build(tgt, case["tgt"])
            res["build"] = "ok"
        except Exception as e:  # noqa: BLE001
            res["build"] = f"{type(e).__name__}: {str(e)[:400]}"
            return res
        ids = [x[0] for x in case["src"]["dsets"]]
        res["src0"], res["tgt0"] = _dim_observe(src, ids), _dim_observe(tgt, ids)
        defs = {n: (k, a, b) for n, k, a, b in case["src"]["dsets"]}
        refs = [_dim_ref(src, n, *defs[n]) for n in case["sel"]]
        op = case["op"]
        if op == 0:
            d = fixture.new_root("c19dx")

            def go():
                with src.butler.export(directory=d, filename="export.yaml", transfer="copy") as ex:
                    ex.saveDatasets(refs)
                tgt.butler.import_(directory=d, filename="export.yaml", transfer="copy")
        elif op == 1:
            def go():
                tgt.butler.transfer_from(src.butler, refs, transfer="copy", register_dataset_types=True,
                                         transfer_dimensions=True)
        else:
            def go():
                tgt.butler.transfer_dimension_records_from(src.butler, refs)
        res["out"], res["msg"] = _outcome(go)
        res["tgt1"] = _dim_observe(tgt, ids)
        res["src_same"] = _dim_observe(src, ids) == res["src0"]
        return res
    finally:
        src.close()
        tgt.close()
        if d:
            shutil.rmtree(d, ignore_errors=True)


def run_dim_cases(payload):
    return [run_dim_case(c) for c in payload["cases"]]
