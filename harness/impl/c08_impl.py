"""C08 implementation driver: run one operation of a REAL Butler (SQLite registry + POSIX file datastore) in a forked
child process that dies (os._exit) at the k-th instrumented SQL / file boundary, then reopen the repository with a
fresh Butler in the parent and record what it sees.

World (numeric ids <-> real names, never sent to the model):
  slot d (0..NSLOT-1) -> dataset of type "dt" (instrument, detector) with data ID {I0, detector d%4} in RUN "r0" (d<4) / "r1" (d>=4)
  content v           -> stored dict {"slot": d, "v": v, "pad": "x"*400}
  staging file of slot d : <top>/ext/s<d>.yaml holding v = 100+d          (source of ingest)
  source repository <top>/src : every slot stored with v = 200+d             (source of transfer_from; same run names)

Ops (JSON): ["mput", [[d, v]..]] (a loop of Butler.put in one process; a refused put is skipped, the first error is raised at the end)
            | ["ingestmulti", "copy"|"move", [d..]] (ONE staging file s<d0>.yaml ingested for several refs: one artifact, several records)
            | ["ingestzip", [d..]] (Butler.ingest_zip of a zip of the source repository's datasets d..: one artifact, fragment paths)
            | ["trash", [d..]] (Datastore.trash only) | ["put", d, v] | ["ingest", "copy"|"move", d] | ["transfer", [d..]] | ["prune", [d..]] (purge+unstore+disassociate)
            | ["unstore", [d..]] | ["removeruns", r] | ["emptytrash"]

Events (instrumented from outside the package, no source hooks):
  sql:<VERB table>      SQLAlchemy `before_cursor_execute` (PRAGMA / ROLLBACK not counted)
  sql:COMMIT            SQLAlchemy `commit` (fires BEFORE the DBAPI commit)
  fs:write              lsst.resources FileResourcePath.write           (crash "mid": half of the bytes are written first)
  fs:rename|replace     os.rename / os.replace
  fs:copy               shutil.copy                                      (crash "mid": half of the bytes are copied first)
  fs:remove             FileResourcePath.remove / os.remove / os.unlink
A crash at index k means: the process dies immediately BEFORE event k takes effect (k = number of events means after
the last one).  A "mid" crash at a write/copy event k: the destination holds the first half of the bytes, then death.
"""
from __future__ import annotations

import json
import os
import re
import shutil
import sqlite3
import time

from harness.impl import fixture

NSLOT = 6
os.environ["LSST_RESOURCES_NUM_WORKERS"] = "1"   # sequential transfers / removals: deterministic event order
PAD = "x" * 400


def run_of(d):
    return "r0" if d < 4 else "r1"


class Tracer:
    def __init__(self):
        self.reset()

    def reset(self, at=None, mid=False):
        self.n = 0
        self.at = at
        self.mid = mid
        self.trace = []
        self.suspend = 0
        self.active = False

    def event(self, kind, label, midfn=None):
        if not self.active or self.suspend:
            return
        i = self.n
        self.n += 1
        self.trace.append(f"{kind}:{label}")
        if self.at == i:
            if self.mid and midfn is not None:
                try:
                    midfn()
                finally:
                    os._exit(137)
            os._exit(137)


TR = Tracer()
_patched = False


def _sql_label(stmt: str) -> str:
    s = stmt.strip()
    w = s.split()
    if not w:
        return "?"
    head = w[0].upper()
    if head == "INSERT":
        # INSERT [OR REPLACE] INTO tbl
        m = re.search(r"\bINTO\s+\"?([A-Za-z0-9_]+)", s, re.I)
        return f"INSERT {m.group(1) if m else '?'}"
    if head == "DELETE":
        m = re.search(r"\bFROM\s+\"?([A-Za-z0-9_]+)", s, re.I)
        return f"DELETE {m.group(1) if m else '?'}"
    if head == "UPDATE":
        return "UPDATE " + w[1].strip('"')
    if head in ("CREATE", "DROP"):
        return f"{head} {w[1].upper() if len(w) > 1 else ''}"
    if head in ("SELECT", "WITH"):
        return "SELECT"
    return head


def patch_process():
    """Process-wide wrappers around the file-system boundary; idempotent."""
    global _patched
    if _patched:
        return
    _patched = True
    import shutil as _sh

    import lsst.resources.file as rf

    orig_write = rf.FileResourcePath.write

    def w_write(self, data, overwrite=True):
        def mid():
            p = self.ospath
            os.makedirs(os.path.dirname(p), exist_ok=True)
            with open(p, "wb") as f:
                f.write(bytes(data)[: max(1, len(data) // 2)])
                f.flush()
        TR.event("fs", "write", mid)
        TR.suspend += 1
        try:
            return orig_write(self, data, overwrite=overwrite)
        finally:
            TR.suspend -= 1
    rf.FileResourcePath.write = w_write

    orig_remove = rf.FileResourcePath.remove

    def w_remove(self):
        TR.event("fs", "remove")
        TR.suspend += 1
        try:
            return orig_remove(self)
        finally:
            TR.suspend -= 1
    rf.FileResourcePath.remove = w_remove

    def wrap_os(mod, name, label, mid=False):
        orig = getattr(mod, name)

        def w(*a, **k):
            midfn = None
            if mid:
                def midfn():
                    src, dst = a[0], a[1]
                    data = open(src, "rb").read()
                    with open(dst, "wb") as f:
                        f.write(data[: max(1, len(data) // 2)])
                        f.flush()
            TR.event("fs", label, midfn)
            TR.suspend += 1
            try:
                return orig(*a, **k)
            finally:
                TR.suspend -= 1
        w.__name__ = name
        setattr(mod, name, w)

    wrap_os(os, "rename", "rename")
    wrap_os(os, "replace", "replace")
    wrap_os(os, "remove", "remove")
    wrap_os(os, "unlink", "remove")
    wrap_os(os, "link", "link")
    wrap_os(os, "symlink", "symlink")
    wrap_os(_sh, "copy", "copy", mid=True)
    wrap_os(_sh, "copyfile", "copy", mid=True)
    wrap_os(_sh, "copy2", "copy", mid=True)
    wrap_os(_sh, "move", "move")


def patch_engine(butler):
    import sqlalchemy

    eng = butler._registry._db._engine

    def before(conn, cursor, statement, parameters, context, executemany):
        s = statement.lstrip()
        up = s[:9].upper()
        if up.startswith("ROLLBACK") or up.startswith("PRAGMA"):
            return
        TR.event("sql", _sql_label(s))

    def on_commit(conn):
        TR.event("sql", "COMMIT")

    sqlalchemy.event.listen(eng, "before_cursor_execute", before)
    sqlalchemy.event.listen(eng, "commit", on_commit)


# ------------------------------------------------------------------------------------------------------------
def did(d):
    return {"instrument": "I0", "detector": d % 4}


def payload_of(d, v):
    return {"slot": d, "v": v, "pad": PAD}


class World:
    def __init__(self, top, instrument=True):
        self.top = top
        self.root = os.path.join(top, "repo")
        self.ext = os.path.join(top, "ext")
        self.src = os.path.join(top, "src")
        self.butler = fixture.open_repo(self.root)
        if instrument:
            patch_engine(self.butler)
        self.dt = self.butler.get_dataset_type("dt")

    def close(self):
        try:
            self.butler._registry._db._engine.dispose()
        except Exception:  # noqa: BLE001
            pass

    def ref_of(self, d):
        r = self.butler.find_dataset("dt", did(d), collections=run_of(d))
        if r is None:
            raise LookupError(f"no dataset in slot {d}")
        return r

    def refs_of(self, ds):
        out = []
        for d in ds:
            try:
                out.append(self.ref_of(d))
            except LookupError:
                pass
        return out

    def prepare(self, op):
        """Everything the caller of the operation does BEFORE the call whose interruption is studied (looking up refs,
        opening the source repository): not instrumented."""
        name = op[0]
        if name in ("prune", "unstore", "trash"):
            return self.refs_of(op[1])
        if name == "ingestzip":
            from lsst.resources import ResourcePath
            sb = fixture.open_repo(self.src, writeable=False)
            refs = [sb.find_dataset("dt", did(d), collections=run_of(d)) for d in op[1]]
            dest = os.path.join(self.top, f"zz{os.getpid()}")
            z = sb.retrieve_artifacts_zip([r for r in refs if r is not None], destination=ResourcePath(dest, forceDirectory=True))
            try:
                sb._registry._db._engine.dispose()
            except Exception:  # noqa: BLE001
                pass
            return z
        if name == "transfer":
            sb = fixture.open_repo(self.src, writeable=False)
            refs = []
            for d in op[1]:
                r = sb.find_dataset("dt", did(d), collections=run_of(d))
                if r is not None:
                    refs.append(r)
            return (sb, refs)
        return None

    def call(self, op, prep):
        b = self.butler
        name = op[0]
        if name == "put":
            _, d, v = op
            b.put(payload_of(d, v), "dt", did(d), run=run_of(d))
        elif name == "mput":
            errs = []
            for d, v in op[1]:
                try:
                    b.put(payload_of(d, v), "dt", did(d), run=run_of(d))
                except Exception as e:  # noqa: BLE001
                    errs.append(e)
            if errs:
                raise errs[0]
        elif name == "ingestmulti":
            _, mode, ds = op
            from lsst.daf.butler import DataCoordinate, DatasetRef, FileDataset
            refs = [DatasetRef(self.dt, DataCoordinate.standardize(did(d), universe=b.dimensions), run=run_of(d)) for d in ds]
            b.ingest(FileDataset(path=os.path.join(self.ext, f"s{ds[0]}.yaml"), refs=refs), transfer=mode)
        elif name == "ingestzip":
            b.ingest_zip(prep, transfer="copy")
        elif name == "ingest":
            _, mode, d = op
            from lsst.daf.butler import DataCoordinate, DatasetRef, FileDataset
            dc = DataCoordinate.standardize(did(d), universe=b.dimensions)
            ref = DatasetRef(self.dt, dc, run=run_of(d))
            b.ingest(FileDataset(path=os.path.join(self.ext, f"s{d}.yaml"), refs=[ref]), transfer=mode)
        elif name == "transfer":
            sb, refs = prep
            b.transfer_from(sb, refs, transfer="copy")
        elif name == "prune":
            b.pruneDatasets(prep, disassociate=True, unstore=True, purge=True)
        elif name == "unstore":
            b.pruneDatasets(prep, disassociate=False, unstore=True, purge=False)
        elif name == "trash":
            b._datastore.trash(prep)
        elif name == "removeruns":
            b.removeRuns([op[1] if isinstance(op[1], str) else f"r{op[1]}"], unstore=True)
        elif name == "emptytrash":
            b._datastore.emptyTrash()
        else:
            raise ValueError(f"unknown op {name}")

    def run_op(self, op):
        prep = self.prepare(op)
        TR.active = True
        try:
            self.call(op, prep)
        finally:
            TR.active = False


def slot_of_path(rel):
    m = re.fullmatch(r"(r[01])/dt/dt_I0_det(\d)_r[01]\.yaml", rel)
    if not m:
        return None
    d = int(m.group(2)) + (4 if m.group(1) == "r1" else 0)
    return d


def file_state(path, d=None):
    """-> [slot, v] for a complete, parseable artifact; [-1, -1] for anything else (half-written, garbage)."""
    import yaml
    try:
        y = yaml.safe_load(open(path))
        if isinstance(y, dict) and y.get("pad") == PAD:
            return [int(y["slot"]), int(y["v"])]
    except Exception:  # noqa: BLE001
        pass
    return [-1, -1]


def zip_complete(path):
    import zipfile
    try:
        with zipfile.ZipFile(path) as z:
            return z.testzip() is None and len(z.namelist()) > 0
    except Exception:  # noqa: BLE001
        return False


def observe(top, idmap=None):
    """Open a FRESH Butler on the repository and record everything the property talks about."""
    root = os.path.join(top, "repo")
    obs = {"errors": []}
    b = fixture.open_repo(root)
    try:
        def guard(name, fn, default):
            try:
                return fn()
            except Exception as e:  # noqa: BLE001
                obs["errors"].append(f"{name}:{type(e).__name__}:{str(e)[:100]}")
                return default

        refs = []
        colls = guard("collections", lambda: sorted(b.collections.query("*")), [])
        obs["runs"] = [c for c in colls if c in ("r0", "r1")]
        for r in obs["runs"]:
            refs += guard("query_datasets", lambda r=r: list(b.query_datasets("dt", collections=r, find_first=False, explain=False,
                                                                              limit=None)), [])
        byslot = {int(r.dataId["detector"]) + (4 if r.run == "r1" else 0): r for r in refs}
        obs["ds"] = sorted(byslot)
        ex, got, got_raw = [], [], []
        for d, r in sorted(byslot.items()):
            e = guard("exists", lambda r=r: b.exists(r, full_check=True), None)
            if e is None:
                ex.append([d, -1, -1, -1])
            else:
                from lsst.daf.butler import DatasetExistence as DE
                v = e.value
                ex.append([d, int(bool(v & DE.RECORDED.value)), int(bool(v & DE.DATASTORE.value)), int(bool(v & DE._ARTIFACT.value))])
            try:
                x = b.get(r)
                got.append([d, int(x.get("v", -1)) if (x.get("slot") == d and x.get("pad") == PAD) else -2])
                if x.get("pad") == PAD:
                    got_raw.append([d, int(x.get("slot", -1)), int(x.get("v", -1))])
                else:
                    got_raw.append([d, -2, -2])
            except FileNotFoundError:
                got.append([d, -1])
                got_raw.append([d, -1, -1])
            except Exception as e2:  # noqa: BLE001
                got.append([d, -3])
                got_raw.append([d, -3, -3])
                obs["errors"].append(f"get:{d}:{type(e2).__name__}:{str(e2)[:100]}")
        obs["exists"] = ex
        obs["get"] = got
        obs["get_raw"] = got_raw       # [slot, slot named in the payload, v]: several refs may share one artifact
    finally:
        try:
            b._registry._db._engine.dispose()
        except Exception:  # noqa: BLE001
            pass
    obs.update(raw(top, idmap))
    return obs


def id_map(root):
    """{dataset id (hex): slot} of every dataset of the repository at `root` (for naming trash rows of purged datasets)."""
    con = sqlite3.connect(f"file:{root}/gen3.sqlite3?mode=ro", uri=True, timeout=30)
    det = {}
    try:
        cur = con.cursor()
        for tb, in cur.execute("select name from sqlite_master where type='table' and name like 'dataset_tags_%'").fetchall():
            names = [r[1] for r in cur.execute(f"pragma table_info({tb})")]
            if "detector" in names:
                cname = dict(cur.execute("select collection_id, name from collection").fetchall())
                for i, dd, cid in cur.execute(f"select dataset_id, detector, collection_id from {tb}").fetchall():
                    det[i.hex() if isinstance(i, bytes) else str(i)] = int(dd) + (4 if cname.get(cid) == "r1" else 0)
    finally:
        con.close()
    return det


def raw(top, idmap=None):
    root = os.path.join(top, "repo")
    out = {}
    con = sqlite3.connect(f"file:{root}/gen3.sqlite3?mode=ro", uri=True, timeout=30)
    try:
        cur = con.cursor()
        det = {}
        for tb, in cur.execute("select name from sqlite_master where type='table' and name like 'dataset_tags_%'").fetchall():
            names = [r[1] for r in cur.execute(f"pragma table_info({tb})")]
            if "detector" in names:
                cname = dict(cur.execute("select collection_id, name from collection").fetchall())
                for i, dd, cid in cur.execute(f"select dataset_id, detector, collection_id from {tb}").fetchall():
                    det[bytes(i) if not isinstance(i, str) else i] = int(dd) + (4 if cname.get(cid) == "r1" else 0)
        for k, v in (idmap or {}).items():
            det.setdefault(k, v)
        out["raw_unmapped"] = 0

        def slots(q):
            res = []
            for (i,) in cur.execute(q):
                key = bytes(i) if not isinstance(i, str) else i
                if key not in det:
                    out["raw_unmapped"] += 1
                res.append(det.get(key, 99))
            return sorted(res)
        out["raw_ds"] = slots("select id from dataset")
        out["raw_loc"] = slots("select dataset_id from dataset_location")
        out["raw_trash"] = slots("select dataset_id from dataset_location_trash")
        recs = []
        for (p,) in cur.execute("select path from file_datastore_records"):
            recs.append(slot_of_path(p) if slot_of_path(p) is not None else 98)
        out["raw_recs"] = sorted(recs)
        rid = []
        for i, p in cur.execute("select dataset_id, path from file_datastore_records"):
            key = bytes(i) if not isinstance(i, str) else i
            rid.append([det.get(key, 99), "zip" if "#zip-path=" in p else (slot_of_path(p) if slot_of_path(p) is not None else 98)])
        out["raw_recs_id"] = sorted(rid, key=lambda r: (r[0], str(r[1])))      # [slot of the dataset id, slot named by the path | "zip"]
        out["raw_runs"] = sorted(n for (n,) in cur.execute("select name from collection") if n in ("r0", "r1"))
    finally:
        con.close()
    files, odd, zips = [], [], []
    for rel in sorted(fixture.listing(root)):
        p = os.path.join(root, rel)
        if re.fullmatch(r"zips/[0-9a-f]+/[0-9a-f-]+\.zip", rel):
            zips.append([rel, int(zip_complete(p))])      # a zip under its FINAL name: complete archive or not
            continue
        d = slot_of_path(rel)
        st = file_state(p)
        if d is not None:
            # a file under a FINAL name: [slot, v] (v = -1: not a complete artifact of this slot)
            files.append([d, st[1] if st[0] == d else -1])
        elif rel.endswith(".zip"):
            # the temporary name of a zip being copied in: 7000 = a complete archive, -1 = anything else
            odd.append([rel if len(rel) < 60 else rel[:60], 7000 if zip_complete(p) else -1])
        else:
            odd.append([rel if len(rel) < 60 else rel[:60], st[1]])
    out["files"] = files
    out["odd"] = odd
    out["zips"] = zips
    ext = []
    for d in range(NSLOT):
        p = os.path.join(top, "ext", f"s{d}.yaml")
        if os.path.exists(p):
            st = file_state(p)
            ext.append([d, st[1] if st[0] == d else -1])
    out["ext"] = ext
    return out


# ------------------------------------------------------------------------------------------------------------
def build_base(top, pre):
    """Template world: repository + staging area + source repository, with the committed pre-history applied."""
    import yaml
    from lsst.daf.butler import CollectionType  # noqa: F401
    os.makedirs(os.path.join(top, "ext"))
    for which in ("repo", "src"):
        root = os.path.join(top, which)
        _, b = fixture.make_repo(root)
        fixture.add_instrument(b, name="I0", detectors=range(4), filters=())
        fixture.add_dataset_type(b, "dt")
        b.registry.registerRun("r0")
        b.registry.registerRun("r1")
        if which == "src":
            for d in range(NSLOT):
                b.put(payload_of(d, 200 + d), "dt", did(d), run=run_of(d))
        b._registry._db._engine.dispose()
        del b
    for d in range(NSLOT):
        with open(os.path.join(top, "ext", f"s{d}.yaml"), "w") as f:
            yaml.safe_dump(payload_of(d, 100 + d), f)
    w = World(top, instrument=False)
    outs = []
    try:
        for op in pre:
            try:
                w.run_op(op)
                outs.append("Ok")
            except Exception as e:  # noqa: BLE001
                outs.append("Err:" + type(e).__name__)
    finally:
        w.close()
    return outs


def _copy_world(base, work):
    if os.path.exists(work):
        shutil.rmtree(work)
    shutil.copytree(base, work, symlinks=True)


def run_free(base, work, op):
    """Fault-free run in a forked child (so that the parent never holds a connection): returns outcome + trace."""
    import json
    _copy_world(base, work)
    rfd, wfd = os.pipe()
    pid = os.fork()
    if pid == 0:
        code = 0
        try:
            os.close(rfd)
            TR.reset(None)
            w = World(work)
            try:
                w.run_op(op)
                out = "Ok"
            except Exception as e:  # noqa: BLE001
                out = "Err:" + type(e).__name__ + ":" + str(e)[:200]
            os.write(wfd, json.dumps({"out": out, "trace": TR.trace}).encode())
            os.close(wfd)
            w.close()
        except BaseException as e:  # noqa: BLE001
            try:
                os.write(wfd, json.dumps({"out": "Harness:" + repr(e)[:300], "trace": TR.trace}).encode())
            except Exception:  # noqa: BLE001
                pass
            code = 3
        finally:
            os._exit(code)
    os.close(wfd)
    data = b""
    while True:
        chunk = os.read(rfd, 65536)
        if not chunk:
            break
        data += chunk
    os.close(rfd)
    _wait(pid, 120)
    return json.loads(data.decode() or '{"out": "Harness:nodata", "trace": []}')


def _wait(pid, timeout):
    t0 = time.time()
    while True:
        p, st = os.waitpid(pid, os.WNOHANG)
        if p:
            return st
        if time.time() - t0 > timeout:
            try:
                os.kill(pid, 9)
            except OSError:
                pass
            os.waitpid(pid, 0)
            return -1
        time.sleep(0.005)


def run_crash(base, work, op, at, mid):
    """Run `op` in a forked child that dies at event `at`; returns the child's exit status (137 expected)."""
    _copy_world(base, work)
    pid = os.fork()
    if pid == 0:
        try:
            TR.reset(at, mid)
            w = World(work)
            w.run_op(op)
        except BaseException:  # noqa: BLE001
            os._exit(4)
        os._exit(0)     # completed without reaching event `at` (at = number of events: crash after the last one)
    st = _wait(pid, 120)
    if st == -1:
        return "hang"
    return os.waitstatus_to_exitcode(st)


def run_follow(top, ops):
    """Run follow-up operations (re-run of the removal, emptyTrash) fault-free with a fresh Butler in a child process."""
    pid = os.fork()
    if pid == 0:
        code = 0
        try:
            TR.reset(None)
            w = World(top, instrument=False)
            for op in ops:
                try:
                    w.run_op(op)
                except Exception:  # noqa: BLE001
                    code = 5
            w.close()
        except BaseException:  # noqa: BLE001
            code = 6
        os._exit(code)
    st = _wait(pid, 120)
    return "hang" if st == -1 else os.waitstatus_to_exitcode(st)


def run_scenarios(payload):
    """payload {"scenarios": [{"pre": [op..], "op": op, "points": "all" | [[k, mid]..], "follow": [[op..], ..]}]}
    -> [{"pre_out", "pre_obs", "free": {"out","trace"}, "free_obs", "crashes": [{"at","mid","exit","obs","follow":[{"exit","obs"}]}]}]"""
    patch_process()
    import lsst.daf.butler  # noqa: F401  (imported before forking so that children start warm)
    out = []
    for sc in payload["scenarios"]:
        top = fixture.new_root("c08")
        t0 = time.time()
        try:
            base = os.path.join(top, "base")
            os.makedirs(base)
            pre_out = build_base(base, sc.get("pre", []))
            idmap = id_map(os.path.join(base, "repo"))
            for k_, v_ in id_map(os.path.join(base, "src")).items():
                idmap.setdefault(k_, v_)
            pre_obs = observe(base, idmap)
            work = os.path.join(top, "w")
            free = run_free(base, work, sc["op"])
            free_obs = observe(work, idmap)
            n = len(free["trace"])
            pts = sc.get("points", "all")
            skip_sel = pts == "mutating"
            if pts in ("all", "mutating"):
                pts = []
                for k in range(n + 1):
                    if skip_sel and 0 < k < n and free["trace"][k] == "sql:SELECT":
                        continue      # dying before a read is dying before the next write
                    pts.append([k, False])
                    if k < n and free["trace"][k] in ("fs:write", "fs:copy"):
                        pts.append([k, True])
            crashes = []
            last_key = None
            for k, mid in pts:
                if k > n:
                    continue
                ex = run_crash(base, work, sc["op"], k, mid)
                rec = {"at": k, "mid": bool(mid), "exit": ex, "obs": observe(work, idmap), "follow": []}
                # each follow-up list is applied to a private copy of the crashed repository
                fl = sc.get("follow", [])
                if skip_sel:
                    # quick tier: a crash point whose recovered repository is observably identical to the previous crash
                    # point's (rows, files incl. temporary ones by content, staging area, every Butler answer) gets no
                    # follow-ups of its own -- they would replay the previous ones (observe() has already rolled the journal back)
                    key = json.dumps([ex, {kk: (vv if kk != "odd" else sorted(x[1] for x in vv)) for kk, vv in rec["obs"].items()}], sort_keys=True)
                    if key == last_key:
                        fl = []
                        rec["follow_same_as_previous"] = True
                    last_key = key
                if fl:
                    crashed = os.path.join(top, "crashed")
                    if os.path.exists(crashed):
                        shutil.rmtree(crashed)
                    os.rename(work, crashed)
                    for ops in fl:
                        _copy_world(crashed, work)
                        fex = run_follow(work, ops)
                        rec["follow"].append({"ops": ops, "exit": fex, "obs": observe(work, idmap)})
                    shutil.rmtree(crashed, ignore_errors=True)
                crashes.append(rec)
            out.append({"pre_out": pre_out, "pre_obs": pre_obs, "free": free, "free_obs": free_obs, "crashes": crashes,
                        "wall": round(time.time() - t0, 2)})
        finally:
            fixture.cleanup(top)
    return out
